#!/usr/bin/env python3
"""Regenerates MANIFEST.json from tools/manifest_src.json (claimed checks + not_applicable reasons)."""
import json, subprocess, os
root = os.path.dirname(os.path.dirname(os.path.abspath(__file__)))
src = json.load(open(os.path.join(root, "tools", "manifest_src.json")))
try:
    commits = subprocess.check_output(["git", "-C", "/repo", "log", "--format=%H %s"], text=True).splitlines()
except Exception:
    commits = []
hook_commits = [c.split()[0] for c in commits if " verif:" in c[40:48] or c[41:].startswith("verif:")]
m = {
    "version": 1,
    "setup_cmd": "cd engine && GOFLAGS=-mod=mod GOPROXY=off GOSUMDB=off GOTOOLCHAIN=local go build -o ../bin/gvc .",
    "hooks": {
        "guard": "verif",
        "enable": "gvc loads /repo with `-tags=verif`; the hook files (verif_contracts*.go: comment-only contract data; verif_ghost*.go: ghost lemma drivers) are compiled only under that tag",
        "baseline_off_cmd": "cd /repo && go test -vet=off -count=1 ./...",
        "source_commits": hook_commits,
        "add_only": True,
    },
    "engines": [{
        "name": "gvc",
        "path": "engine/",
        "serves_properties": [c["property_id"] for c in src["checks"]],
        "kind_free_text": "self-written deductive verifier for Go: weakest-precondition style VC generation over go/ssa of the real package (x/tools v0.29.0), contracts in a comment-only file behind the build tag, obligations discharged by z3 5.1.0 / z3 4.8.12 / cvc5 1.0",
    }],
    "checks": [],
    "not_applicable": src["not_applicable"],
    "notes": src.get("notes", ""),
}
for c in src["checks"]:
    pid = c["property_id"]
    m["checks"].append({
        "property_id": pid,
        "quick_cmd": f"./check {pid} quick",
        "thorough_cmd": f"./check {pid} thorough",
        "evidence_file": f"evidence/{pid}.json",
        "replay_cmd_template": f"./check {pid} --replay {{path}}",
        "engine": "gvc",
        "level_claimed": {"category": c["category"], "text": c["text"], "design_ref": c.get("design_ref", "DESIGN.md §7 " + pid)},
        "level_note": c["level_note"],
        "technique": c.get("technique", "contract-based deductive verification: VCs generated from go/ssa of /repo, discharged by SMT (z3/cvc5)"),
    })
json.dump(m, open(os.path.join(root, "MANIFEST.json"), "w"), indent=1)
print("wrote MANIFEST.json with", len(m["checks"]), "checks,", len(m["not_applicable"]), "not claimed")
