#!/bin/sh
# usage: tools/run_all.sh [quick|thorough] — runs every claimed check against /repo and validates the evidence files
ROOT=$(cd "$(dirname "$0")/.." && pwd); cd "$ROOT"
TIER=${1:-quick}; rc_all=0
for p in $(python3 -c "import json;print(' '.join(c['property_id'] for c in json.load(open('MANIFEST.json'))['checks']))"); do
  s=$(date +%s); out=$(./check $p $TIER 2>&1); rc=$?; e=$(date +%s)
  echo "$p exit=$rc $((e-s))s viol=$(echo "$out" | grep -c '^VIOLATION') known=$(echo "$out" | grep -c '^KNOWN-FINDING') undecided=$(echo "$out" | grep -c '^UNDECIDED') | $(echo "$out" | tail -1)"
  [ $rc -ne 0 ] && { rc_all=1; echo "$out" | grep '^VIOLATION\|ERROR' | head -5; }
done
python3-vt - <<'PY'
import json, jsonschema, glob
sch = json.load(open('/root/.vp/EVIDENCE.schema.json'))
for f in sorted(glob.glob('evidence/*.json')):
    try:
        jsonschema.validate(json.load(open(f)), sch)
    except Exception as ex:
        print('EVIDENCE-INVALID', f, str(ex)[:200])
jsonschema.validate(json.load(open('MANIFEST.json')), json.load(open('/root/.vp/MANIFEST.schema.json')))
print('schemas ok')
PY
exit $rc_all
