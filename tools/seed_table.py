#!/usr/bin/env python3
"""Rewrites the table between the seedtable markers of DESIGN.md from seeded/*/meta.json."""
import json, os, re
root = os.path.dirname(os.path.dirname(os.path.abspath(__file__)))
rows = []
n = caught = 0
for name in sorted(os.listdir(os.path.join(root, "seeded"))):
    mp = os.path.join(root, "seeded", name, "meta.json")
    if not os.path.exists(mp):
        continue
    m = json.load(open(mp))
    n += 1
    caught += 1 if m["caught"] else 0
    by = "; ".join(x.replace(" no-failing-input-found", "") for x in m["caught_by"][:2]) if m["caught"] else "—"
    first = ""
    if "first_run_caught_by" in m:
        first = "first run: " + ("caught" if m["first_run_caught_by"] else "missed")
    ch = m["change"].replace("|", "/")
    ch = re.sub(r"^(C\d\d\s*(/|—|-|:)?\s*)?(seeded\s+)?change\s*\d\s*(—|-|:)?\s*", "", ch, flags=re.I)
    rows.append(f"| {name} | {ch[:110]} | {'✔' if m['caught'] else '✘'} | {by[:150]} | {first} |")
tbl = ["| seed | change | caught | by (property: first violated obligation) | note |", "|---|---|---|---|---|"] + rows
tbl.append("")
tbl.append(f"{caught} of {n} seeded changes are reported as violations by the check of their own property (or a related one listed in `seeded/<id>/also`).")
p = os.path.join(root, "DESIGN.md")
s = open(p).read()
b, e = "<!-- seedtable:begin -->", "<!-- seedtable:end -->"
if "SEEDTABLE" in s:
    s = s.replace("SEEDTABLE", b + "\n" + e)
i, j = s.index(b), s.index(e)
s = s[:i + len(b)] + "\n" + "\n".join(tbl) + "\n" + s[j:]
open(p, "w").write(s)
print(caught, "of", n)
