#!/bin/sh
# usage: tools/eval_seed.sh <seed-dir containing patch.diff demo_test.go> <name> <props...>
# Confirms a seeded change (compiles, suite passes, demo fails with / passes without), runs the named checks
# against a scratch copy with the change applied, and stores everything under seeded/<name>/.
SRC=$1; NAME=$2; shift 2
ROOT=$(cd "$(dirname "$0")/.." && pwd)
TMP=${TMPDIR:-/tmp}/gvc-seed-$$
rm -rf "$TMP"; mkdir -p "$TMP"; rsync -a --exclude .git "${EVAL_REPO:-/repo}/" "$TMP/"
export GOFLAGS=-mod=mod GOPROXY=off
cd "$TMP" || exit 2
cp "$SRC/demo_test.go" zz_demo_test.go
demo_clean=$(go test -vet=off -count=1 -run 'ZzDemo|zzDemo' . 2>&1 | tail -3); rc_clean=$?
go test -vet=off -count=1 -run 'ZzDemo|zzDemo' . >/dev/null 2>&1; rc_clean=$?
if ! git apply --directory="$TMP" --unsafe-paths "$SRC/patch.diff" 2>/dev/null; then patch -p1 -s < "$SRC/patch.diff" || { echo "patch does not apply"; exit 2; }; fi
go build ./... >/dev/null 2>&1; rc_build=$?
go test -vet=off -count=1 -run 'ZzDemo|zzDemo' . >/dev/null 2>&1; rc_demo=$?
rm zz_demo_test.go
go test -vet=off -count=1 ./... >/dev/null 2>&1; rc_suite=$?
echo "build=$rc_build suite_with_change=$rc_suite demo_without=$rc_clean demo_with=$rc_demo"
mkdir -p "$ROOT/seeded/$NAME"; cp "$SRC/patch.diff" "$SRC/demo_test.go" "$ROOT/seeded/$NAME/"; [ -f "$SRC/notes.md" ] && cp "$SRC/notes.md" "$ROOT/seeded/$NAME/"
res=""
for prop in "$@"; do
  out=$(GVC_REPO="$TMP" GVC_OUT="$TMP/.gvc-out" "$ROOT/check" "$prop" quick 2>&1 </dev/null); rc=$?
  n=$(echo "$out" | grep -c '^VIOLATION')
  first=$(echo "$out" | grep '^VIOLATION' | head -3 | sed 's/.*obligation=//' | tr '\n' ';')
  echo "check $prop: exit=$rc violations=$n first: $first"
  res="$res{\"property\":\"$prop\",\"exit\":$rc,\"violation_lines\":$n,\"first\":\"$(echo $first | sed 's/"/\\"/g')\"},"
done
echo "{\"build\":$rc_build,\"suite_with_change\":$rc_suite,\"demo_without_change\":$rc_clean,\"demo_with_change\":$rc_demo,\"checks\":[${res%,}]}" > "$ROOT/seeded/$NAME/result.json"
cd /; rm -rf "$TMP"
