#!/bin/sh
# re-evaluates every seeded change under seeded/ with the current machinery (each against its own property's check,
# plus the extra properties listed in seeded/<id>/also if present)
ROOT=$(cd "$(dirname "$0")/.." && pwd); cd "$ROOT"
for d in seeded/${1:-*}/; do
  n=$(basename $d); p=${n%%-*}
  extra=""; [ -f $d/also ] && extra=$(cat $d/also)
  echo "== $n"
  tools/eval_seed.sh "$ROOT/$d" "$n" $p $extra
done
python3 tools/mk_meta.py
