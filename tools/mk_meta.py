#!/usr/bin/env python3
"""Writes seeded/<id>/meta.json from notes.md (the sub-agent's account), result.json (final machinery) and
first_run.json (machinery at the time the change was written, if different)."""
import json, os, re, sys
root = os.path.dirname(os.path.dirname(os.path.abspath(__file__)))
sd = os.path.join(root, "seeded")
for name in sorted(os.listdir(sd)):
    d = os.path.join(sd, name)
    if not os.path.isdir(d):
        continue
    prop = name.split("-")[0]
    notes = open(os.path.join(d, "notes.md")).read() if os.path.exists(os.path.join(d, "notes.md")) else ""
    title = ""
    for l in notes.splitlines():
        if l.startswith("#"):
            title = l.lstrip("# ").strip(); break
    needs = ""
    m = re.search(r"^#+\s*(What is needed[^\n]*|What it needs[^\n]*|Needs[^\n]*|Trigger[^\n]*|What.*manifest[^\n]*)\n(.*?)(?=^#+\s|\Z)", notes, re.S | re.M | re.I)
    if m:
        needs = " ".join(m.group(2).split())[:700]
    res = json.load(open(os.path.join(d, "result.json"))) if os.path.exists(os.path.join(d, "result.json")) else None
    first = json.load(open(os.path.join(d, "first_run.json"))) if os.path.exists(os.path.join(d, "first_run.json")) else None
    def caught(r):
        return [c["property"] + ": " + c["first"].split(";")[0] for c in r["checks"] if c["exit"] == 1 and c["violation_lines"] > 0] if r else []
    meta = {
        "property": prop,
        "change": title,
        "needs_to_manifest": needs,
        "author": "independent sub-agent given only the property text and its own scratch worktree",
        "confirmed_by": "tools/eval_seed.sh on a scratch copy of /repo: patch applies, `go build ./...` ok, `go test -vet=off -count=1 ./...` passes with the change, demo_test.go (as zz_demo_test.go) passes without the change and fails with it; then `./check <property> quick` against the scratch copy with the change applied",
        "confirmation": ({k: res[k] for k in ("build", "suite_with_change", "demo_without_change", "demo_with_change")} if res else None),
        "checks_run": [c["property"] for c in res["checks"]] if res else [],
        "caught_by": caught(res),
        "caught": bool(caught(res)),
    }
    if first is not None:
        meta["first_run_caught_by"] = caught(first)
    json.dump(meta, open(os.path.join(d, "meta.json"), "w"), indent=1)
    print(name, "caught" if meta["caught"] else "MISSED", "|", "; ".join(meta["caught_by"])[:120])
