#!/bin/sh
# Must-fail / must-pass self-test of the checks.
#   selftest/run.sh [pattern]
# Every selftest/mutants/<name>.patch has a line "<name>.patch <property> [<property>...]" in selftest/mutants/INDEX:
# the patch is applied to a scratch copy of /repo's working tree and each listed property check must exit 1 with a
# VIOLATION line. Every selftest/benign/<name>.patch (INDEX likewise) must leave the listed checks at exit 0.
ROOT=$(cd "$(dirname "$0")/.." && pwd)
PAT=${1:-.}
TMP=${TMPDIR:-/tmp}/gvc-selftest-$$
fail=0
run_one() { # kind patch props...
  kind=$1; patch=$2; shift 2
  rm -rf "$TMP"; mkdir -p "$TMP"
  rsync -a --exclude .git /repo/ "$TMP/"
  if ! (cd "$TMP" && patch -p1 -s < "$ROOT/selftest/$kind/$patch"); then echo "SELFTEST-ERROR $patch does not apply"; fail=1; rm -rf "$TMP"; return; fi
  for prop in "$@"; do
    out=$(GVC_REPO="$TMP" GVC_OUT="$TMP/.gvc-out" "$ROOT/check" "$prop" quick 2>&1 </dev/null); rc=$?
    nviol=$(echo "$out" | grep -c '^VIOLATION')
    if [ "$kind" = mutants ]; then
      if [ $rc -eq 1 ] && [ "$nviol" -gt 0 ]; then echo "ok   mutant $patch caught by $prop ($nviol violation lines; first: $(echo "$out" | grep '^VIOLATION' | head -1 | sed 's/.*obligation=//'))"
      else echo "MISS mutant $patch NOT caught by $prop (rc=$rc)"; fail=1; fi
    else
      if [ $rc -eq 0 ] && [ "$nviol" -eq 0 ]; then echo "ok   benign $patch passes $prop"
      else echo "FALSE-ALARM benign $patch flagged by $prop (rc=$rc): $(echo "$out" | grep '^VIOLATION' | head -2)"; fail=1; fi
    fi
  done
  rm -rf "$TMP"
}
for kind in mutants benign; do
  [ -f "$ROOT/selftest/$kind/INDEX" ] || continue
  grep -v '^#' "$ROOT/selftest/$kind/INDEX" | grep -e "$PAT" | while read patch props; do
    [ -n "$patch" ] && run_one $kind $patch $props
  done
done
exit $fail
