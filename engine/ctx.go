package main

import (
	"fmt"
	"go/ast"
	"go/token"
	"go/types"
	"sort"
	"strings"

	"golang.org/x/tools/go/ssa"
)

// ---------------------------------------------------------------------------
// Values

// Val is the symbolic value of an SSA value or contract expression.
type Val struct {
	T      string // SMT term when Sort != ""
	Sort   string // Int, Bool, Slice, Iface; "" for aggregates / locations
	Fields []Val  // struct / tuple / array components
	Loc    *Loc   // pointer to a non-struct cell
	Typ    types.Type
	IsStr  bool // Int term that denotes a string id
	Math   bool // contract-level mathematical integer
}

// Loc is the address of a heap cell: Region[Idx...]
type Loc struct {
	Region string
	Idx    []string
	Sort   string
	Typ    types.Type // type of the cell content
}

func scalar(t, sort string, typ types.Type) Val { return Val{T: t, Sort: sort, Typ: typ} }

// ---------------------------------------------------------------------------
// Heap: region name -> current SMT term, lazily materialised.

type Heap struct {
	regs map[string]string
	lazy func(region, sort string) string
	id   int
}

func (h *Heap) get(region, sort string) string {
	if regionSortSink != nil {
		regionSortSink[region] = sort
	}
	if t, ok := h.regs[region]; ok {
		return t
	}
	t := h.lazy(region, sort)
	h.regs[region] = t
	return t
}

func (h *Heap) set(region, term string) {
	if heapNamer != nil && len(term) > 64 {
		term = heapNamer(region, term)
	}
	h.regs[region] = term
}

// heapNamer (set per function context) introduces a named constant for a large heap term.
var heapNamer func(region, term string) string

// regionSortSink records the SMT sort of every region touched (per function context).
var regionSortSink map[string]string

func (h *Heap) clone() *Heap {
	n := &Heap{regs: map[string]string{}, id: h.id}
	for k, v := range h.regs {
		n.regs[k] = v
	}
	parent := h
	n.lazy = func(r, s string) string { return parent.get(r, s) }
	return n
}

// ---------------------------------------------------------------------------
// Obligations

type Obligation struct {
	Name    string
	Fn      string
	Kind    string
	Props   []string
	Goal    string   // formula that must be valid under the assumptions
	NAssume int      // number of assumptions (prefix) in scope
	Extra   []string // extra local assumptions (path condition etc.)
	Pos     string
	Text    string // human readable
	fc      *FnCtx
	Expect  string // "unsat" normally; "sat" for vacuity checks
	// filled by solver
	Result string
	Solver string
	Time   float64
	Model  string
	Output string
	Replay *Replay
	File   string
}

// ---------------------------------------------------------------------------
// Function context

type FnCtx struct {
	eng  *Engine
	fn   *ssa.Function
	name string
	con  *FuncContract

	decls    []string
	declared map[string]bool
	assumes  []string
	obls     []*Obligation
	notes    []string
	trusted  map[string]bool

	vals      map[ssa.Value]Val
	reach     map[*ssa.BasicBlock]string
	exitHeap  map[*ssa.BasicBlock]*Heap
	exitGhost map[*ssa.BasicBlock]map[string]string
	entryHeap *Heap
	nfresh    int
	nheap     int
	ordinals  map[string]int

	allocIDs     map[ssa.Value]int
	unescaped    map[ssa.Value]bool
	allocRefs    map[ssa.Value]Val
	nalloc       int
	loops        map[*ssa.BasicBlock]*loopInfo
	loopOrder    []*ssa.BasicBlock
	backEdge     map[[2]int]bool
	order        []*ssa.BasicBlock
	posText      map[token.Pos]string
	cur          *ssa.BasicBlock
	curIdx       int
	preserve     []string
	partial      bool // generation stopped at a clause that does not bind
	skippedAts   []string
	preCallHeap  *Heap
	preCallGhost map[string]string
	retReach     []string
	wfSeen       map[string]bool
	curInstr     ssa.Instruction
	regionSorts  map[string]string
	reachM       map[int]map[int]bool
	curReach     string
	heap         *Heap
	ghost        map[string]string
	ghostSort    map[string]string
	sentOf       map[ssa.Value][]string // hand-off flags of SSA values that are sent on a channel
	sentAt       []sentSite
	unfrozen     map[string]bool // immutable regions the callee being applied may write (it reaches a declared writer)
	ghost0       map[string]string
	defers       []deferred
	subrefSeen   map[string]bool
	strLits      map[string]string
	debugRefs    map[types.Object][]*ssa.DebugRef
	paramVals    map[string]Val
	retBlocks    []*ssa.BasicBlock
	props        []string
	curLoopPre   map[*ssa.BasicBlock]*Heap
	failedBind   []string
}

type deferred struct {
	call  *ssa.CallCommon
	args  []Val
	recv  Val
	reach string
	instr ssa.Instruction
}

type loopInfo struct {
	unfrozen map[string]bool
	header   *ssa.BasicBlock
	body     map[*ssa.BasicBlock]bool
	latches  []*ssa.BasicBlock
	ordinal  int
	con      *LoopContract
	preHeap  *Heap
	preGhost map[string]string
	prePhi   map[*ssa.Phi]Val
	havocPhi map[*ssa.Phi]Val
	preReach string
	modAll   bool
	modRegs  map[string]bool
	decr0    string
}

func (fc *FnCtx) fresh(prefix, sort string) string {
	fc.nfresh++
	name := qsym(fmt.Sprintf("%s!%d", prefix, fc.nfresh))
	fc.declare(name, sort)
	return name
}

func (fc *FnCtx) declare(name, sort string) {
	if fc.declared[name] {
		return
	}
	fc.declared[name] = true
	fc.decls = append(fc.decls, fmt.Sprintf("(declare-const %s %s)", name, sort))
}

func (fc *FnCtx) declareFun(name string, args []string, ret string) {
	if fc.declared[name] {
		return
	}
	fc.declared[name] = true
	fc.decls = append(fc.decls, fmt.Sprintf("(declare-fun %s (%s) %s)", name, strings.Join(args, " "), ret))
}

func (fc *FnCtx) assume(f string) {
	if f == "true" {
		return
	}
	fc.assumes = append(fc.assumes, f)
}

func (fc *FnCtx) assumeHere(f string) { fc.assume(implies(fc.curReach, f)) }

func (fc *FnCtx) note(format string, a ...interface{}) {
	s := fmt.Sprintf(format, a...)
	for _, n := range fc.notes {
		if n == s {
			return
		}
	}
	fc.notes = append(fc.notes, s)
}

// oblige records a proof obligation valid at the current point and then assumes it.
func (fc *FnCtx) oblige(kind, detail, goal string, props []string, text string, pos token.Pos) *Obligation {
	return fc.obligeAt(fc.curReach, kind, detail, goal, props, text, pos)
}

func (fc *FnCtx) obligeAt(reach, kind, detail, goal string, props []string, text string, pos token.Pos) *Obligation {
	if goal == "true" {
		// trivially valid: still recorded so that counts are stable
	}
	base := kind
	if detail != "" {
		base += ":" + detail
	}
	fc.ordinals[base]++
	name := fmt.Sprintf("%s/%s#%d", fc.name, base, fc.ordinals[base])
	if props == nil {
		props = fc.props
	}
	o := &Obligation{Name: name, Fn: fc.name, Kind: kind, Props: props, Goal: implies(reach, goal), NAssume: len(fc.assumes), Text: text, fc: fc, Expect: "unsat"}
	if pos.IsValid() {
		p := fc.eng.fset.Position(pos)
		o.Pos = fmt.Sprintf("%s:%d", shortFile(p.Filename), p.Line)
	}
	fc.obls = append(fc.obls, o)
	fc.assume(implies(reach, goal))
	return o
}

// splitGoal splits a formula into conjuncts: (and a b) -> a, b ; (=> h (and a b)) -> (=> h a), (=> h b).
func splitGoal(t string) []string {
	t = strings.TrimSpace(t)
	if strings.HasPrefix(t, "(and ") {
		var out []string
		for _, a := range sexprArgs(t) {
			out = append(out, splitGoal(a)...)
		}
		return out
	}
	if strings.HasPrefix(t, "(=> ") {
		args := sexprArgs(t)
		if len(args) == 2 {
			var out []string
			for _, c := range splitGoal(args[1]) {
				out = append(out, implies(args[0], c))
			}
			return out
		}
	}
	if strings.HasPrefix(t, "(forall ") {
		args := sexprArgs(t)
		if len(args) == 2 {
			body := args[1]
			if strings.HasPrefix(body, "(! ") {
				if ba := sexprArgs(body); len(ba) >= 1 {
					body = ba[0]
				}
			}
			parts := splitGoal(body)
			if len(parts) > 1 {
				var names []string
				for _, d := range sexprArgs("(x " + strings.TrimSuffix(strings.TrimPrefix(args[0], "("), ")") + ")") {
					if da := sexprArgs("(x " + strings.TrimSuffix(strings.TrimPrefix(d, "("), ")") + ")"); len(da) > 0 {
						names = append(names, da[0])
					}
				}
				var out []string
				for _, c := range parts {
					// each part keeps triggers of its own (the formula is also assumed after it has been proved)
					if alts := autoTriggers(c, names); len(alts) > 0 {
						var pats []string
						for _, a := range alts {
							pats = append(pats, ":pattern ("+strings.Join(a, " ")+")")
						}
						c = "(! " + c + " " + strings.Join(pats, " ") + ")"
					}
					out = append(out, "(forall "+args[0]+" "+c+")")
				}
				return out
			}
		}
	}
	return []string{t}
}

// sexprArgs returns the top-level arguments of (op a b c).
func sexprArgs(t string) []string {
	var out []string
	i := strings.IndexByte(t, ' ')
	if i < 0 {
		return nil
	}
	d := 0
	start := -1
	inq := false
	for k := i; k < len(t)-1; k++ {
		c := t[k]
		if inq {
			if c == '|' {
				inq = false
				if d == 0 {
					out = append(out, t[start:k+1])
					start = -1
				}
			}
			continue
		}
		switch c {
		case '|':
			inq = true
			if d == 0 && start < 0 {
				start = k
			}
		case '(':
			if d == 0 && start < 0 {
				start = k
			}
			d++
		case ')':
			d--
			if d == 0 {
				out = append(out, t[start:k+1])
				start = -1
			}
		case ' ', '\n', '\t':
			if d == 0 && start >= 0 {
				out = append(out, t[start:k])
				start = -1
			}
		default:
			if d == 0 && start < 0 {
				start = k
			}
		}
	}
	if start >= 0 {
		out = append(out, t[start:len(t)-1])
	}
	return out
}

func shortFile(s string) string {
	if i := strings.LastIndex(s, "/"); i >= 0 {
		return s[i+1:]
	}
	return s
}

// srcText returns normalised source text for the AST node whose operator position is pos.
func (fc *FnCtx) srcText(pos token.Pos) string {
	if t, ok := fc.posText[pos]; ok {
		return t
	}
	return ""
}

func (fc *FnCtx) buildPosText() {
	fc.posText = map[token.Pos]string{}
	syn := fc.fn.Syntax()
	if syn == nil {
		return
	}
	txt := func(n ast.Node) string {
		s := fc.eng.nodeText(n)
		s = strings.Join(strings.Fields(s), " ")
		if len(s) > 70 {
			s = s[:70]
		}
		return s
	}
	ast.Inspect(syn, func(n ast.Node) bool {
		switch x := n.(type) {
		case *ast.IndexExpr:
			fc.posText[x.Lbrack] = txt(x)
		case *ast.SliceExpr:
			fc.posText[x.Lbrack] = txt(x)
		case *ast.SelectorExpr:
			fc.posText[x.Sel.Pos()] = txt(x)
		case *ast.CallExpr:
			fc.posText[x.Lparen] = txt(x)
		case *ast.TypeAssertExpr:
			fc.posText[x.Lparen] = txt(x)
		case *ast.StarExpr:
			fc.posText[x.Star] = txt(x)
		case *ast.UnaryExpr:
			fc.posText[x.OpPos] = txt(x)
		case *ast.BinaryExpr:
			fc.posText[x.OpPos] = txt(x)
		case *ast.SendStmt:
			fc.posText[x.Arrow] = txt(x)
		case *ast.GoStmt:
			fc.posText[x.Go] = txt(x)
		case *ast.DeferStmt:
			fc.posText[x.Defer] = txt(x)
		case *ast.RangeStmt:
			fc.posText[x.For] = "range " + txt(x.X)
		}
		return true
	})
}

// ---------------------------------------------------------------------------
// Region naming

func (e *Engine) typeKey(t types.Type) string {
	s := types.TypeString(t, func(p *types.Package) string {
		if p == e.tpkg {
			return ""
		}
		return p.Name()
	})
	s = strings.NewReplacer(" ", "", "*", "p.", "[]", "s.", "interface{}", "any", "{", "(", "}", ")", ";", ",").Replace(s)
	return s
}

func (e *Engine) elemKey(t types.Type) string {
	if b, ok := t.Underlying().(*types.Basic); ok {
		if _, isNamed := t.(*types.Named); !isNamed {
			switch b.Kind() {
			case types.Uint8:
				return "u8"
			}
			return b.Name()
		}
	}
	return e.typeKey(t)
}

func (e *Engine) fieldRegion(st types.Type, field *types.Var) string {
	return "F." + e.typeKey(st) + "." + field.Name()
}

func structOf(t types.Type) (*types.Struct, bool) {
	s, ok := t.Underlying().(*types.Struct)
	return s, ok
}

func derefType(t types.Type) types.Type {
	if p, ok := t.Underlying().(*types.Pointer); ok {
		return p.Elem()
	}
	return t
}

func sortedKeys(m map[string]bool) []string {
	var ks []string
	for k := range m {
		ks = append(ks, k)
	}
	sort.Strings(ks)
	return ks
}

type sentSite struct {
	instr *ssa.Send
	name  string
}
