package main

import (
	"bufio"
	"encoding/json"
	"flag"
	"fmt"
	"os"
	"path/filepath"
	"regexp"
	"runtime"
	"sort"
	"strconv"
	"strings"
	"sync"
	"time"
)

type Baseline struct {
	Note        string              `json:"note"`
	Obligations map[string][]string `json:"obligations"` // property -> obligation names that discharge on the pinned tree
	Unproved    map[string][]string `json:"unproved"`    // property -> obligations generated on the pinned tree that did not enter the baseline
	Claims      map[string][]string `json:"claims"`      // property -> name prefixes claimed wholesale: anchored `requires` clauses (also those with no site yet) and the lock/hand-off discipline of lockcheck functions; a new obligation under such a prefix counts as a baseline obligation
}

type KnownFinding struct {
	Kind       string // known | fixed
	Property   string
	Obligation string
	Rest       string
}

func verifRoot() string {
	if d := os.Getenv("GVC_ROOT"); d != "" {
		return d
	}
	exe, err := os.Executable()
	if err == nil {
		return filepath.Dir(filepath.Dir(exe))
	}
	return "/verif"
}

func loadBaseline(root string) *Baseline {
	b := &Baseline{Obligations: map[string][]string{}}
	data, err := os.ReadFile(filepath.Join(root, "baseline", "obligations.json"))
	if err == nil {
		_ = json.Unmarshal(data, b)
	}
	if b.Obligations == nil {
		b.Obligations = map[string][]string{}
	}
	if b.Unproved == nil {
		b.Unproved = map[string][]string{}
	}
	if b.Claims == nil {
		b.Claims = map[string][]string{}
	}
	return b
}

func loadKnown(root string) []KnownFinding {
	var out []KnownFinding
	f, err := os.Open(filepath.Join(root, "known_findings.txt"))
	if err != nil {
		return nil
	}
	defer f.Close()
	sc := bufio.NewScanner(f)
	re := regexp.MustCompile(`^(known|fixed):\s+property=(\S+)\s+(.*)$`)
	for sc.Scan() {
		line := strings.TrimSpace(sc.Text())
		m := re.FindStringSubmatch(line)
		if m == nil {
			continue
		}
		k := KnownFinding{Kind: m[1], Property: m[2], Rest: m[3]}
		if mm := regexp.MustCompile(`obligation=(\S+)`).FindStringSubmatch(m[3]); mm != nil {
			k.Obligation = mm[1]
		}
		out = append(out, k)
	}
	return out
}

func propOfObl(o *Obligation, prop string) bool {
	return contains(o.Props, prop)
}

type checkResult struct {
	prop        string
	obls        []*Obligation
	fcs         []*FnCtx
	bindErrs    []string
	unmatched   []string
	lemmaObls   []*Obligation
	wall        float64
	loadSecs    float64
	solveSecs   float64
	notes       []string
	trusted     map[string]bool
	funcs       []string
	engineError string
}

// runProperty generates and solves every obligation that serves property prop.
func runProperty(e *Engine, prop string, cfg SolverCfg) *checkResult {
	res := &checkResult{prop: prop, trusted: map[string]bool{}}
	names := e.funcsForProp(prop)
	res.funcs = names
	fcs, errs := generateFor(e, names)
	res.fcs = fcs
	res.bindErrs = errs
	for _, fc := range fcs {
		for _, o := range fc.obls {
			if propOfObl(o, prop) {
				res.obls = append(res.obls, o)
			}
		}
		res.unmatched = append(res.unmatched, fc.unmatchedAts()...)
		for _, n := range fc.notes {
			res.notes = append(res.notes, fc.name+": "+n)
		}
		for t := range fc.trusted {
			res.trusted[t] = true
		}
	}
	// mechanical side conditions: declared-immutable fields are only written by their declared writers
	bad := e.checkImmutableFields()
	for _, fcl := range e.cs.Fields {
		if fcl.Class != "immutable" {
			continue
		}
		k := fcl.Type + "." + fcl.Field
		o := &Obligation{Name: "immutable:" + k + "#1", Fn: "immutable", Kind: "immutable", Props: []string{prop}, Goal: "true", Expect: "unsat", Result: "unsat", Solver: "ssa-scan",
			Text: "field " + k + " is stored to only by " + fcl.By + " (or while the object is still unpublished)"}
		for _, b := range bad {
			if strings.Contains(b, "immutable field "+k+" ") {
				o.Result = "sat"
				o.Output = b
				o.Text += " — VIOLATED: " + b
			}
		}
		res.obls = append(res.obls, o)
		res.trusted["fields declared immutable keep their value across calls into unknown code (writers checked mechanically): "+k] = true
	}
	lobls, lerrs, ltrusted := e.lemmaObligations(prop)
	res.obls = append(res.obls, lobls...)
	res.bindErrs = append(res.bindErrs, lerrs...)
	for _, t := range ltrusted {
		res.trusted[t] = true
	}
	t1 := time.Now()
	Solve(res.obls, cfg)
	res.solveSecs = time.Since(t1).Seconds()
	return res
}

func cmdCheck(args []string) {
	fs := flag.NewFlagSet("check", flag.ExitOnError)
	repo := fs.String("repo", "/repo", "repository")
	prop := fs.String("prop", "", "property id")
	tier := fs.String("tier", "quick", "quick|thorough")
	fs.Parse(args)
	if *prop == "" {
		fmt.Fprintln(os.Stderr, "ENGINE-ERROR: -prop required")
		os.Exit(2)
	}
	root := verifRoot()
	seed := 0
	if s := os.Getenv("VERIF_SEED"); s != "" {
		seed, _ = strconv.Atoi(s)
	}
	t0 := time.Now()
	e, err := LoadEngine(*repo, nil)
	if err != nil {
		// the repository does not load/type-check or the contract file is malformed: no verdict possible
		fmt.Fprintln(os.Stderr, "ENGINE-ERROR load:", err)
		writeEvidence(root, *prop, *tier, seed, nil, nil, nil, time.Since(t0).Seconds(), "engine error: "+err.Error())
		os.Exit(2)
	}
	loadSecs := time.Since(t0).Seconds()
	cfg := SolverCfg{Timeout: 10 * time.Second, Workers: runtime.NumCPU(), Seed: seed}
	if *tier == "thorough" {
		cfg.Timeout = 60 * time.Second
		cfg.AllAgree = true
	}
	res := runProperty(e, *prop, cfg)
	res.loadSecs = loadSecs
	// retry failures of baseline obligations with more time and other seeds before calling them violations
	base := loadBaseline(root)
	inBase := map[string]bool{}
	for _, n := range base.Obligations[*prop] {
		inBase[n] = true
	}
	var retry []*Obligation
	for _, o := range res.obls {
		if o.Kind != "vacuity" && o.Result != "unsat" && o.Result != "sat" && inBase[o.Name] {
			retry = append(retry, o)
		}
	}
	if len(retry) > 0 {
		for _, s := range []int{seed + 1, seed + 2} {
			var again []*Obligation
			for _, o := range retry {
				if o.Result != "unsat" && o.Result != "sat" {
					again = append(again, o)
				}
			}
			if len(again) == 0 {
				break
			}
			c2 := cfg
			c2.Seed = s
			c2.Timeout = 30 * time.Second
			if *tier == "thorough" {
				c2.Timeout = 90 * time.Second
			}
			if s == seed+2 {
				// only obligations on which the solvers ran out of time are worth more time (a loaded machine);
				// "unknown" means the solvers gave up, and more time does not change that
				var slow []*Obligation
				for _, o := range again {
					if o.Result == "timeout" {
						slow = append(slow, o)
					}
				}
				again = slow
				if len(again) == 0 {
					break
				}
				if len(again) <= 8 {
					c2.Timeout = 120 * time.Second
					c2.Workers = 4
				}
			}
			c2.AllAgree = false
			Solve(again, c2)
		}
	}
	known := loadKnown(root)
	exit := report(root, *prop, *tier, seed, res, base, known, time.Since(t0).Seconds(), e)
	os.Exit(exit)
}

func sanitize(s string) string {
	return regexp.MustCompile(`[^A-Za-z0-9_.-]+`).ReplaceAllString(s, "_")
}

var unclaimedNote string

func report(root, prop, tier string, seed int, res *checkResult, base *Baseline, known []KnownFinding, wall float64, e *Engine) int {
	// selftests and scratch runs write their evidence/replay files elsewhere (GVC_OUT) so that the committed
	// evidence always describes /repo itself
	if d := os.Getenv("GVC_OUT"); d != "" {
		root = d
	}
	inBase := map[string]bool{}
	baseStem := map[string]bool{}
	for _, n := range base.Obligations[prop] {
		inBase[n] = true
		baseStem[stem(n)] = true
	}
	// a contract clause that is in the baseline must hold at every program point it applies to: an obligation of a
	// contract-level kind generated at a new return / new site of the same clause counts as a baseline obligation,
	// unless some site of that clause was already unproved on the pinned tree (then a new site stays undecided)
	for _, n := range base.Unproved[prop] {
		delete(baseStem, stem(n))
	}
	// clauses and disciplines claimed wholesale (see Baseline.Claims)
	for _, o := range res.obls {
		if inBase[o.Name] {
			continue
		}
		for _, c := range base.Claims[prop] {
			if strings.HasPrefix(o.Name, c) {
				inBase[o.Name] = true
				break
			}
		}
	}
	for _, o := range res.obls {
		switch o.Kind {
		case "post", "frame", "at", "inv-init", "inv-pres", "dec":
			if !inBase[o.Name] && baseStem[stem(o.Name)] {
				inBase[o.Name] = true
			}
		}
	}
	generated := map[string]bool{}
	var violations []*Obligation
	var undecided []*Obligation
	var vacuous []*Obligation
	var knownHits []string
	nProof, nDischarged := 0, 0
	deadPaths := 0
	nUnclaimed, nUnclaimedOK := 0, 0
	for _, o := range res.obls {
		generated[o.Name] = true
		if o.Kind == "vacuity" || o.Kind == "cover" {
			if o.Result == "unsat" && o.Kind == "vacuity" {
				vacuous = append(vacuous, o)
			}
			if o.Result == "unsat" && o.Kind == "cover" {
				deadPaths++
			}
			continue
		}
		if inBase[o.Name] {
			nProof++
		} else {
			nUnclaimed++
		}
		if o.Result == "disagree" {
			fmt.Fprintf(os.Stderr, "ENGINE-ERROR solvers disagree on %s: %s\n", o.Name, o.Output)
			writeEvidence(root, prop, tier, seed, res, nil, nil, wall, "engine error: solver disagreement on "+o.Name)
			return 2
		}
		if o.Result == "unsat" {
			if inBase[o.Name] {
				nDischarged++
			} else {
				nUnclaimedOK++
			}
			continue
		}
		// failed
		isKnown := false
		for _, k := range known {
			if k.Kind == "known" && k.Property == prop && k.Obligation == o.Name {
				isKnown = true
				line := fmt.Sprintf("KNOWN-FINDING: property=%s %s %s", prop, o.Name, k.Rest)
				knownHits = append(knownHits, line)
				fmt.Println(line)
			}
		}
		if isKnown {
			continue
		}
		if inBase[o.Name] {
			violations = append(violations, o)
		} else {
			undecided = append(undecided, o)
		}
	}
	// try to replay counterexamples of undecided obligations: a confirmed one is a violation whatever the baseline says
	// replay budget: the most promising failures first (solver gave a model), a few per run, in parallel
	cands := append(append([]*Obligation{}, violations...), undecided...)
	sort.SliceStable(cands, func(i, j int) bool { return (cands[i].Result == "sat") && (cands[j].Result != "sat") })
	maxReplay := 6
	if tier == "thorough" {
		maxReplay = 24
	}
	var rc []*Obligation
	for _, o := range cands {
		if replayable(o) {
			rc = append(rc, o)
		}
	}
	cands = rc
	if len(cands) > maxReplay {
		cands = cands[:maxReplay]
	}
	var wg sync.WaitGroup
	sem := make(chan bool, 4)
	for _, o := range cands {
		wg.Add(1)
		go func(o *Obligation) {
			defer wg.Done()
			sem <- true
			tryReplay(e, root, prop, o)
			<-sem
		}(o)
	}
	wg.Wait()
	var stillUndecided []*Obligation
	for _, o := range undecided {
		if o.replayConfirmed() {
			violations = append(violations, o)
		} else {
			stillUndecided = append(stillUndecided, o)
		}
	}
	undecided = stillUndecided
	missing := 0
	for n := range inBase {
		if !generated[n] {
			missing++
		}
	}
	for _, b := range res.bindErrs {
		fmt.Printf("UNDECIDED binding: %s\n", b)
	}
	for _, u := range res.unmatched {
		fmt.Printf("UNDECIDED anchor: %s\n", u)
	}
	for _, o := range undecided {
		fmt.Printf("UNDECIDED obligation=%s result=%s (%s) — not in the baseline, no replayable counterexample\n", o.Name, o.Result, o.Text)
	}
	if deadPaths > 0 {
		fmt.Printf("note: %d return paths are unreachable under the contracts' preconditions (dead under contract)\n", deadPaths)
	}
	for _, o := range vacuous {
		fmt.Printf("UNDECIDED vacuity=%s — assumptions contradict at this point; obligations after it carry no weight\n", o.Name)
	}
	if missing > 0 {
		fmt.Printf("UNDECIDED missing=%d baseline obligations were not generated from the current source\n", missing)
	}
	os.MkdirAll(filepath.Join(root, "replay"), 0o755)
	for _, o := range violations {
		path := filepath.Join(root, "replay", fmt.Sprintf("%s-%s.json", prop, sanitize(o.Name)))
		rf := map[string]interface{}{
			"property": prop, "obligation": o.Name, "kind": o.Kind, "function": o.Fn, "position": o.Pos, "text": o.Text,
			"solver": o.Solver, "result": o.Result, "solver_output": truncate(o.Output, 20000),
			"in_baseline": inBase[o.Name], "goal": truncate(o.Goal, 4000),
		}
		suffix := " no-failing-input-found"
		if o.Replay != nil {
			rf["replay_test"] = o.Replay.Source
			rf["replay_output"] = truncate(o.Replay.Output, 8000)
			rf["replay_confirmed"] = o.Replay.Confirmed
			rf["model_inputs"] = o.Replay.Inputs
			if o.Replay.Confirmed {
				suffix = ""
			}
		}
		data, _ := json.MarshalIndent(rf, "", " ")
		_ = os.WriteFile(path, data, 0o644)
		fmt.Printf("VIOLATION property=%s replay=%s obligation=%s%s\n", prop, path, o.Name, suffix)
	}
	expl := ""
	if len(res.bindErrs)+len(vacuous)+missing > 0 || len(base.Obligations[prop]) == 0 {
		expl = fmt.Sprintf("%d binding errors, %d vacuous points, %d baseline obligations not generated", len(res.bindErrs), len(vacuous), missing)
	}
	unclaimedNote = fmt.Sprintf("%d further obligations were generated that are not part of the claim (not in baseline/obligations.json: new code or obligations that do not discharge stably); %d of them discharged in this run, %d undecided", nUnclaimed, nUnclaimedOK, len(undecided))
	writeEvidenceFull(root, prop, tier, seed, res, nProof, nDischarged, len(violations), knownHits, undecided, wall, expl)
	fmt.Printf("property %s tier %s: %d obligations, %d discharged, %d violations, %d known, %d undecided; load %.1fs solve %.1fs wall %.1fs\n",
		prop, tier, nProof, nDischarged, len(violations), len(knownHits), len(undecided), res.loadSecs, res.solveSecs, wall)
	if len(violations) > 0 {
		return 1
	}
	return 0
}

func truncate(s string, n int) string {
	if len(s) > n {
		return s[:n] + "…"
	}
	return s
}

func writeEvidence(root, prop, tier string, seed int, res *checkResult, a, b interface{}, wall float64, expl string) {
	ev := map[string]interface{}{
		"property_id": prop, "tier": tier, "seed": seed, "level": "other", "wall_s": wall,
		"coverage": map[string]interface{}{"explanation": expl, "obligations": 0, "discharged": 0},
	}
	os.MkdirAll(filepath.Join(root, "evidence"), 0o755)
	data, _ := json.MarshalIndent(ev, "", " ")
	_ = os.WriteFile(filepath.Join(root, "evidence", prop+".json"), data, 0o644)
}

func writeEvidenceFull(root, prop, tier string, seed int, res *checkResult, nProof, nDischarged, nViol int, knownHits []string, undecided []*Obligation, wall float64, expl string) {
	byKind := map[string]int{}
	bySolver := map[string]int{}
	var total, maxT float64
	var maxName string
	nvac, nvacSat := 0, 0
	for _, o := range res.obls {
		if o.Kind == "vacuity" || o.Kind == "cover" {
			nvac++
			if o.Result == "sat" {
				nvacSat++
			}
			continue
		}
		byKind[o.Kind]++
		bySolver[o.Solver]++
		total += o.Time
		if o.Time > maxT {
			maxT, maxName = o.Time, o.Name
		}
	}
	// samples: a few obligations written out
	var samples []interface{}
	seenKind := map[string]bool{}
	for _, o := range res.obls {
		if (o.Kind == "vacuity" || o.Kind == "cover") || seenKind[o.Kind] || len(samples) >= 8 {
			continue
		}
		seenKind[o.Kind] = true
		samples = append(samples, map[string]interface{}{"obligation": o.Name, "kind": o.Kind, "at": o.Pos, "meaning": o.Text, "result": o.Result, "solver": o.Solver, "smt_goal": truncate(o.Goal, 600)})
	}
	var trusted []string
	for t := range res.trusted {
		trusted = append(trusted, t)
	}
	sort.Strings(trusted)
	base := []string{
		"gvc VC generator (SSA -> SMT translation, builtin semantics, contract parser)",
		"golang.org/x/tools/go/ssa v0.29.0 represents the compiled source faithfully",
		"SMT solvers z3 5.1.0 (z3-new), z3 4.8.12, cvc5 1.0",
		"int is 64-bit; machine integers modelled as mathematical integers with exact wrap-around after every operation",
		"callees with a contract do not retain references to their arguments unless the contract says so",
	}
	trustedAll := append(base, trusted...)
	level := "proof"
	if nProof == 0 || nDischarged != nProof || expl != "" {
		level = "other"
	}
	// the level recorded is the level claimed for this property in MANIFEST.json: a property whose obligations all
	// discharge but which covers only part of the statement is claimed (and recorded) as "other"
	if claimed := manifestCategory(root, prop); claimed != "" && level == "proof" {
		level = claimed
	}
	var und []string
	for _, o := range undecided {
		und = append(und, o.Name)
	}
	sort.Strings(res.notes)
	notes := res.notes
	if len(notes) > 40 {
		notes = append(notes[:40], fmt.Sprintf("… %d more", len(res.notes)-40))
	}
	cov := map[string]interface{}{
		"obligations": nProof, "discharged": nDischarged,
		"checker_cmd":               fmt.Sprintf("bin/gvc check -prop %s -tier %s", prop, tier),
		"trusted_base":              trustedAll,
		"functions_under_contract":  res.funcs,
		"obligations_by_kind":       byKind,
		"discharged_by_solver":      bySolver,
		"solver_time_total_s":       total,
		"solver_time_max_s":         maxT,
		"slowest_obligation":        maxName,
		"vacuity_probes":            nvac,
		"vacuity_probes_with_model": nvacSat,
		"samples":                   samples,
		"known_findings_matched":    knownHits,
		"undecided":                 und,
		"binding_errors":            res.bindErrs,
		"abstraction_notes":         notes,
		"unclaimed":                 unclaimedNote,
		"explanation":               "Contract-based deductive verification: every obligation is a VC generated from /repo's SSA and discharged by an SMT solver. The claim is the set of obligations named in baseline/obligations.json; `obligations` counts those. " + unclaimedNote + ". " + expl,
	}
	ev := map[string]interface{}{
		"property_id": prop, "tier": tier, "seed": seed, "level": level, "wall_s": wall, "violations": nViol,
		"coverage": cov, "assumptions": trustedAll,
	}
	os.MkdirAll(filepath.Join(root, "evidence"), 0o755)
	data, _ := json.MarshalIndent(ev, "", " ")
	_ = os.WriteFile(filepath.Join(root, "evidence", prop+".json"), data, 0o644)
}

// ---------------------------------------------------------------------------
// Baseline generation

func cmdBaseline(args []string) {
	fs := flag.NewFlagSet("baseline", flag.ExitOnError)
	repo := fs.String("repo", "/repo", "repository")
	props := fs.String("props", "", "comma separated property ids (default: all mentioned in contracts)")
	seeds := fs.Int("seeds", 2, "number of seeds each obligation must survive")
	fill := fs.Bool("fill-unproved", false, "do not solve: keep the recorded baseline and only record the generated obligations that are not in it")
	fs.Parse(args)
	root := verifRoot()
	e, err := LoadEngine(*repo, nil)
	if err != nil {
		fmt.Fprintln(os.Stderr, "ENGINE-ERROR load:", err)
		os.Exit(2)
	}
	var plist []string
	if *props != "" {
		plist = strings.Split(*props, ",")
	} else {
		plist = e.allProps()
	}
	base := loadBaseline(root)
	base.Note = "names of the obligations that discharge on the pinned tree; regenerate deliberately with `bin/gvc baseline`"
	for _, p := range plist {
		good := map[string]int{}
		total := 0
		var lastObls []*Obligation
		if *fill {
			// keep the recorded baseline; only list what is generated beyond it
			for _, n := range base.Obligations[p] {
				good[n] = *seeds
			}
			res := runProperty(e, p, SolverCfg{Timeout: time.Second, Workers: runtime.NumCPU(), NoSolve: true})
			var unproved []string
			for _, o := range res.obls {
				if o.Kind != "vacuity" && o.Kind != "cover" && good[o.Name] == 0 {
					unproved = append(unproved, o.Name)
				}
			}
			sort.Strings(unproved)
			base.Unproved[p] = unproved
			base.Claims[p] = e.claimsFor(p, unproved)
			fmt.Printf("%s: %d unproved obligations recorded, %d wholesale claims\n", p, len(unproved), len(base.Claims[p]))
			continue
		}
		for s := 0; s < *seeds; s++ {
			res := runProperty(e, p, SolverCfg{Timeout: 10 * time.Second, Workers: runtime.NumCPU(), Seed: s})
			lastObls = res.obls
			total = 0
			for _, o := range res.obls {
				if o.Kind == "vacuity" || o.Kind == "cover" {
					continue
				}
				total++
				if o.Result == "unsat" && o.Time < 8 {
					good[o.Name]++
				}
			}
			// fresh engine state is not needed: contexts are rebuilt per run
		}
		var names []string
		for n, c := range good {
			if c == *seeds {
				names = append(names, n)
			}
		}
		sort.Strings(names)
		base.Obligations[p] = names
		var unproved []string
		for _, o := range lastObls {
			if o.Kind == "vacuity" || o.Kind == "cover" {
				continue
			}
			if good[o.Name] != *seeds {
				unproved = append(unproved, o.Name)
			}
		}
		sort.Strings(unproved)
		base.Unproved[p] = unproved
		base.Claims[p] = e.claimsFor(p, unproved)
		fmt.Printf("%s: %d of %d obligations enter the baseline\n", p, len(names), total)
	}
	os.MkdirAll(filepath.Join(root, "baseline"), 0o755)
	data, _ := json.MarshalIndent(base, "", " ")
	_ = os.WriteFile(filepath.Join(root, "baseline", "obligations.json"), data, 0o644)
}

func (e *Engine) allProps() []string {
	set := map[string]bool{}
	for _, c := range e.cs.Funcs {
		for _, p := range c.Props {
			set[p] = true
		}
		for _, cl := range c.Requires {
			for _, p := range cl.Props {
				set[p] = true
			}
		}
		for _, cl := range c.Ensures {
			for _, p := range cl.Props {
				set[p] = true
			}
		}
		for _, a := range c.Ats {
			for _, p := range a.Cl.Props {
				set[p] = true
			}
		}
	}
	for _, l := range e.cs.Lemmas {
		for _, p := range l.Props {
			set[p] = true
		}
	}
	return sortedKeys(set)
}

// stem: obligation name without its trailing ordinal.
func stem(n string) string {
	if i := strings.LastIndex(n, "#"); i >= 0 {
		return n[:i]
	}
	return n
}

// claimsFor: the name prefixes claimed wholesale for a property (see Baseline.Claims). A prefix under which some
// obligation is unproved on the pinned tree is not claimed.
func (e *Engine) claimsFor(prop string, unproved []string) []string {
	var out []string
	add := func(prefix string) {
		for _, u := range unproved {
			if strings.HasPrefix(u, prefix) {
				return
			}
		}
		out = append(out, prefix)
	}
	for _, name := range e.funcsForProp(prop) {
		con := e.cs.Funcs[name]
		if con == nil || con.NoBody || con.Extern || con.Iface {
			continue
		}
		for i, at := range con.Ats {
			if at.Kind != "requires" {
				continue
			}
			if len(at.Cl.Props) > 0 && !containsStr(at.Cl.Props, prop) {
				continue
			}
			lbl := at.Cl.Label
			if lbl == "" {
				lbl = fmt.Sprintf("%d", i+1)
			}
			add(fmt.Sprintf("%s/at:%s(%s).%s#", name, at.Anchor.Kind, at.Anchor.Pattern, lbl))
		}
		if con.HasAssigns && con.Trusted == "" {
			// `assigns` is a claim about every heap region: a frame obligation for a region the function did
			// not touch before is still part of it
			add(name + "/frame:")
		}
		if con.Opts["lockcheck"] != "" {
			for _, k := range []string{"lock:block:", "lock:held:", "lock:nodouble:", "handoff:"} {
				add(name + "/" + k)
			}
			// the guard discipline is claimed per guarded field, so that a field with accesses that cannot be
			// proved (ownership that moves, e.g. SrvReq.flushreq) does not take the other fields' claims with it
			for _, fcl := range e.cs.Fields {
				if fcl.Class == "guarded" {
					add(name + "/lock:guard:" + fcl.Type + "." + fcl.Field + "@")
				}
			}
		}
	}
	sort.Strings(out)
	return out
}

func containsStr(xs []string, x string) bool {
	for _, y := range xs {
		if y == x {
			return true
		}
	}
	return false
}

// manifestCategory: level_claimed.category of the property's check in MANIFEST.json ("" if not found).
func manifestCategory(root, prop string) string {
	data, err := os.ReadFile(filepath.Join(root, "MANIFEST.json"))
	if err != nil {
		return ""
	}
	var m struct {
		Checks []struct {
			PropertyID   string `json:"property_id"`
			LevelClaimed struct {
				Category string `json:"category"`
			} `json:"level_claimed"`
		} `json:"checks"`
	}
	if json.Unmarshal(data, &m) != nil {
		return ""
	}
	for _, c := range m.Checks {
		if c.PropertyID == prop {
			return c.LevelClaimed.Category
		}
	}
	return ""
}
