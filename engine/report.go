package main

func cmdCheck(args []string)    {}
func cmdBaseline(args []string) {}
