package main

import (
	"fmt"
	"go/types"

	"golang.org/x/tools/go/ssa"
)

func (e *Engine) newBareCtx(name string) *FnCtx {
	fc := &FnCtx{eng: e, name: name, con: &FuncContract{Name: name, Loops: map[int]*LoopContract{}, Opts: map[string]string{}}, declared: map[string]bool{}, vals: map[ssa.Value]Val{},
		reach: map[*ssa.BasicBlock]string{}, exitHeap: map[*ssa.BasicBlock]*Heap{}, exitGhost: map[*ssa.BasicBlock]map[string]string{},
		ordinals: map[string]int{}, allocIDs: map[ssa.Value]int{}, unescaped: map[ssa.Value]bool{}, allocRefs: map[ssa.Value]Val{},
		loops: map[*ssa.BasicBlock]*loopInfo{}, backEdge: map[[2]int]bool{}, ghost: map[string]string{}, ghostSort: map[string]string{},
		ghost0: map[string]string{}, subrefSeen: map[string]bool{}, strLits: map[string]string{}, debugRefs: map[types.Object][]*ssa.DebugRef{},
		paramVals: map[string]Val{}, trusted: map[string]bool{}, curLoopPre: map[*ssa.BasicBlock]*Heap{}}
	fc.installHeapNamer()
	fc.entryHeap = fc.baseHeap()
	fc.heap = fc.entryHeap
	fc.curReach = "true"
	fc.ghostSort["now"] = sInt
	fc.declare("now@0", sInt)
	fc.ghost["now"] = "now@0"
	fc.ghost0["now"] = "now@0"
	fc.ghostSort["held"] = arrSort(sBool)
	fc.declare("held@0", arrSort(sBool))
	fc.ghost["held"] = "held@0"
	fc.ghost0["held"] = "held@0"
	return fc
}

func qvarSort(s string) string {
	switch s {
	case "bool":
		return sBool
	case "slice":
		return sSlice
	case "iface":
		return sIface
	case "arr":
		return arrSort(sInt)
	}
	return sInt
}

// lemmaObligations: base/step (or direct) obligations of every lemma serving the property.
func (e *Engine) lemmaObligations(prop string) (obls []*Obligation, errs []string, trusted []string) {
	for _, l := range e.cs.Lemmas {
		if !contains(l.Props, prop) {
			continue
		}
		func() {
			defer func() {
				if r := recover(); r != nil {
					if be, ok := r.(bindError); ok {
						errs = append(errs, "lemma "+l.Name+": "+be.msg)
						return
					}
					panic(r)
				}
			}()
			mk := func(tag string, subst map[string]string, ih bool) {
				fc := e.newBareCtx("lemma:" + l.Name)
				fc.props = l.Props
				env := &Env{fc: fc, heap: fc.entryHeap, old: fc.entryHeap, ghost: fc.ghost0, oldGhost: fc.ghost0, vars: map[string]Val{}, oldvars: map[string]Val{}}
				for _, v := range l.Vars {
					s := qvarSort(v.Sort)
					c := fc.fresh("lv."+v.Name, s)
					env.vars[v.Name] = Val{T: c, Sort: s, Math: s == sInt}
				}
				for _, u := range l.Uses {
					fc.assume(e.lemmaFormula(fc, u))
				}
				if l.Induct != "" {
					iv := env.vars[l.Induct]
					switch tag {
					case "base":
						fc.assume(eq(iv.T, "0"))
					case "step":
						// induction hypothesis at i, goal at i+1
						fc.assume(sx(">=", iv.T, "0"))
						var hs, cs []string
						for _, h := range l.Hyps {
							hs = append(hs, fc.evalBool(h.E, env))
						}
						for _, c := range l.Concl {
							cs = append(cs, fc.evalBool(c.E, env))
						}
						fc.assume(implies(and(hs...), and(cs...)))
						env.vars[l.Induct] = Val{T: sx("+", iv.T, "1"), Sort: sInt, Math: true}
					}
				}
				for _, h := range l.Hyps {
					fc.assume(fc.evalBool(h.E, env))
				}
				for i, c := range l.Concl {
					g := fc.evalBool(c.E, env)
					o := &Obligation{Name: fmt.Sprintf("lemma:%s/%s#%d", l.Name, tag, i+1), Fn: "lemma:" + l.Name, Kind: "lemma", Props: l.Props, Goal: g, NAssume: len(fc.assumes), fc: fc, Expect: "unsat", Text: "lemma " + l.Name + " (" + tag + "): " + c.Text}
					obls = append(obls, o)
				}
				for t := range fc.trusted {
					trusted = append(trusted, t)
				}
			}
			if l.Induct != "" {
				mk("base", nil, false)
				mk("step", nil, true)
			} else {
				mk("direct", nil, false)
			}
		}()
	}
	return
}

// lemmaFormula: the universally quantified statement of a (separately proved) lemma.
func (e *Engine) lemmaFormula(fc *FnCtx, name string) string {
	for _, l := range e.cs.Lemmas {
		if l.Name != name {
			continue
		}
		env := &Env{fc: fc, heap: fc.entryHeap, old: fc.entryHeap, ghost: fc.ghost0, oldGhost: fc.ghost0, vars: map[string]Val{}, oldvars: map[string]Val{}, bound: map[string]Val{}}
		var decls string
		for _, v := range l.Vars {
			s := qvarSort(v.Sort)
			nm := qsym("l." + v.Name)
			env.bound[v.Name] = Val{T: nm, Sort: s, Math: s == sInt}
			decls += fmt.Sprintf("(%s %s)", nm, s)
		}
		var hs, cs []string
		for _, h := range l.Hyps {
			hs = append(hs, fc.evalBool(h.E, env))
		}
		for _, c := range l.Concl {
			cs = append(cs, fc.evalBool(c.E, env))
		}
		body := implies(and(hs...), and(cs...))
		if l.Trigger != nil {
			var ts string
			for _, t := range l.Trigger {
				ts += " " + fc.evalExpr(t, env).T
			}
			body = "(! " + body + " :pattern (" + ts + "))"
		}
		return "(forall (" + decls + ") " + body + ")"
	}
	panic(bindError{"unknown lemma " + name})
}
