package main

import (
	"fmt"
	"go/ast"
	"go/constant"
	"go/token"
	"go/types"
	"strings"

	"golang.org/x/tools/go/ssa"
)

// ---------------------------------------------------------------------------
// Callee identification

func (fc *FnCtx) calleeName(c *ssa.CallCommon) string {
	if c.IsInvoke() {
		it := c.Value.Type()
		return fc.eng.ifaceName(it) + "." + c.Method.Name()
	}
	if f := c.StaticCallee(); f != nil {
		if f.Parent() != nil {
			return "closure"
		}
		return f.RelString(fc.eng.tpkg)
	}
	if _, ok := c.Value.(*ssa.Builtin); ok {
		return "builtin." + c.Value.Name()
	}
	return "dynamic"
}

func (e *Engine) ifaceName(t types.Type) string {
	if n, ok := t.(*types.Named); ok {
		if n.Obj().Pkg() == nil {
			return n.Obj().Name()
		}
		if n.Obj().Pkg() == e.tpkg {
			return n.Obj().Name()
		}
		return n.Obj().Pkg().Name() + "." + n.Obj().Name()
	}
	return types.TypeString(t, nil)
}

func (fc *FnCtx) calleeSig(c *ssa.CallCommon) *types.Signature {
	return c.Signature()
}

// sigParamTypes lists the types of receiver (for static methods) and parameters in call-argument order.
func sigParamTypes(sig *types.Signature, c *ssa.CallCommon) []types.Type {
	var out []types.Type
	if c.IsInvoke() {
		out = append(out, c.Value.Type())
	} else if sig.Recv() != nil {
		out = append(out, sig.Recv().Type())
	}
	for i := 0; i < sig.Params().Len(); i++ {
		out = append(out, sig.Params().At(i).Type())
	}
	return out
}

func (fc *FnCtx) isExternCallee(c *ssa.CallCommon) bool {
	if c.IsInvoke() {
		if n, ok := c.Value.Type().(*types.Named); ok {
			return n.Obj().Pkg() != fc.eng.tpkg
		}
		return true // anonymous interface
	}
	if f := c.StaticCallee(); f != nil {
		if f.Parent() != nil {
			return false
		}
		return f.Pkg != fc.eng.pkg
	}
	return false
}

func special(name string) bool {
	switch name {
	case "(*sync.Mutex).Lock", "(*sync.Mutex).Unlock", "sync/atomic.LoadUint32", "sync/atomic.StoreUint32", "sync/atomic.AddUint32":
		return true
	}
	return false
}

var panicking = map[string]bool{
	"log.Panicf": true, "log.Panic": true, "log.Panicln": true, "log.Fatal": true, "log.Fatalf": true, "log.Fatalln": true, "os.Exit": true,
}

// ---------------------------------------------------------------------------
// Calls

func (fc *FnCtx) doCall(instr ssa.Instruction, c *ssa.CallCommon, pos token.Pos) Val {
	var resType types.Type = types.NewTuple()
	if v, ok := instr.(ssa.Value); ok {
		resType = v.Type()
	} else if c.Signature().Results().Len() == 1 {
		resType = c.Signature().Results().At(0).Type()
	} else {
		resType = c.Signature().Results()
	}
	if b, ok := c.Value.(*ssa.Builtin); ok {
		return fc.builtin(b, c, pos, resType)
	}
	name := fc.calleeName(c)
	txt := fc.srcText(pos)
	// fields declared immutable stay frozen across this call unless the callee can reach one of their writers
	fc.unfrozen = nil
	if callee := c.StaticCallee(); callee != nil && callee.Pkg == fc.fn.Pkg {
		fc.unfrozen = fc.eng.writersReachable(callee)
	}
	defer func() { fc.unfrozen = nil }()
	var args []Val
	if c.IsInvoke() {
		recv := fc.valOf(c.Value)
		fc.oblige("nil", "invoke:"+txt, not(eq(recv.T, zeroOf(sIface))), nil, "method call on non-nil interface", pos)
		args = append(args, recv)
	}
	for _, a := range c.Args {
		args = append(args, fc.valOf(a))
	}
	if panicking[name] {
		fc.oblige("panic", name, "false", nil, "call to "+name+" is unreachable", pos)
		return fc.freshVal("ret", resType)
	}
	switch name {
	case "(*sync.Mutex).Lock":
		fc.lockOp(args[0], true, pos, txt)
		return Val{Typ: resType}
	case "(*sync.Mutex).Unlock":
		fc.lockOp(args[0], false, pos, txt)
		return Val{Typ: resType}
	case "sync/atomic.LoadUint32":
		v := fc.loadVal(fc.heap, args[0], types.Typ[types.Uint32])
		fc.assumeHere(fc.typeFacts(v, types.Typ[types.Uint32]))
		return v
	case "sync/atomic.StoreUint32":
		fc.storeVal(fc.heap, args[0], types.Typ[types.Uint32], args[1])
		return Val{Typ: resType}
	case "sync/atomic.AddUint32":
		k, _ := intKindOf(types.Typ[types.Uint32])
		old := fc.loadVal(fc.heap, args[0], types.Typ[types.Uint32])
		nv := scalar(k.wrap(sx("+", old.T, args[1].T)), sInt, types.Typ[types.Uint32])
		fc.storeVal(fc.heap, args[0], types.Typ[types.Uint32], nv)
		return nv
	}
	fc.hookAnchor("call", name, instr, args, c)
	defer fc.advanceClock()
	if len(fc.con.Ats) > 0 {
		// snapshot (the heap object is updated in place by the call's effects)
		fc.preCallHeap = fc.heap
		fc.heap = fc.heap.clone()
		fc.preCallGhost = fc.ghost
	}
	con := fc.eng.cs.Funcs[name]
	var res Val
	if con != nil {
		res = fc.applyContract(con, name, c, args, resType, pos, txt)
	} else {
		res = fc.defaultCall(name, c, args, resType, pos)
	}
	fc.hookAnchorAfter("call", name, instr, args, res, c)
	return res
}

// defaultCall: callee without a contract.
func (fc *FnCtx) defaultCall(name string, c *ssa.CallCommon, args []Val, resType types.Type, pos token.Pos) Val {
	if fc.isExternCallee(c) {
		// dependency without contract: assumed not to panic, to write only the elements of slice arguments
		fc.trusted["extern "+name+": assumed not to panic; writes only the elements of its slice arguments; result arbitrary"] = true
		var argTypes []types.Type
		if c.IsInvoke() {
			argTypes = append(argTypes, c.Value.Type())
		}
		for _, a := range c.Args {
			argTypes = append(argTypes, a.Type())
		}
		for i, a := range args {
			if a.Sort == sSlice && i < len(argTypes) {
				if st, ok := argTypes[i].Underlying().(*types.Slice); ok {
					fc.havocSliceRange(a.T, st.Elem(), "0", sx("s-len", a.T))
				}
			}
		}
		// pointer arguments (also when boxed in an interface): the pointee may be written
		for _, av := range c.Args {
			fc.havocPointee(av, 0)
		}
		if fc.mayBlock(name) {
			fc.blockingPoint(name, pos)
		}
	} else {
		fc.note("call to %s has no contract: default contract (requires true, assigns everything, ensures true)", name)
		fc.blockingPoint("call:"+name, pos)
		fc.havocAll("call " + name)
	}
	res := fc.freshVal("ret."+shortName(name), resType)
	fc.assumeHere(fc.typeFacts(res, resType))
	fc.assumeResultsNotAllocated(res, resType)
	return res
}

func (fc *FnCtx) assumeResultsNotAllocated(res Val, t types.Type) {
	if tt, ok := t.(*types.Tuple); ok {
		for i := 0; i < tt.Len() && i < len(res.Fields); i++ {
			fc.assumeHere(fc.notAllocated(res.Fields[i], tt.At(i).Type()))
		}
		return
	}
	fc.assumeHere(fc.notAllocated(res, t))
}

func shortName(s string) string {
	s = strings.NewReplacer("(", "", ")", "", "*", "", "/", ".").Replace(s)
	return s
}

func (fc *FnCtx) mayBlock(name string) bool {
	switch name {
	case "net.Conn.Read", "net.Conn.Write", "net.Listener.Accept":
		return true
	}
	return false
}

// havocAll: forget everything about the heap except immutable regions and unescaped local objects.
func (fc *FnCtx) havocAll(why string) {
	prev := fc.heap
	fc.nheap++
	n := fc.nheap
	// cells of unescaped allocations keep their values
	type keep struct {
		v   Val
		typ types.Type
	}
	var keeps []keep
	for site, v := range fc.allocRefs {
		if fc.unescaped[site] {
			keeps = append(keeps, keep{v, site.Type()})
		}
	}
	h := &Heap{regs: map[string]string{}}
	preserve := append([]string{}, fc.preserve...)
	fc.preserve = nil
	unfrozen := fc.unfrozen
	h.lazy = func(r, s string) string {
		if (fc.immutableRegion(r) && !unfrozen[r]) || contains(preserve, r) {
			return prev.get(r, s)
		}
		c := qsym(fmt.Sprintf("%s@h%d", r, n))
		if !fc.declared[c] {
			fc.regionRangeAxiom(r, c)
		}
		fc.declare(c, s)
		old := prev.get(r, s)
		for _, k := range keeps {
			for _, idx := range fc.cellsIn(k.v, k.typ, r) {
				fc.assume(eq(sel(c, idx), sel(old, idx)))
			}
		}
		return c
	}
	fc.heap = h
}

// cellsIn: first-level indices at which value v (a local allocation) has cells in region r.
func (fc *FnCtx) cellsIn(v Val, t types.Type, r string) []string {
	var out []string
	switch u := t.Underlying().(type) {
	case *types.Pointer:
		elem := u.Elem()
		if v.Loc != nil {
			if v.Loc.Region == r && len(v.Loc.Idx) > 0 {
				out = append(out, v.Loc.Idx[0])
			}
			return out
		}
		var rec func(base string, t types.Type)
		rec = func(base string, t types.Type) {
			st, ok := structOf(t)
			if !ok {
				return
			}
			for i := 0; i < st.NumFields(); i++ {
				f := st.Field(i)
				if sortOf(f.Type()) != "" {
					if fc.eng.fieldRegion(t, f) == r {
						out = append(out, base)
					}
				} else if _, ok := structOf(f.Type()); ok {
					rec(fc.subRef(t, f, base), f.Type())
				}
			}
		}
		rec(v.T, elem)
	case *types.Slice:
		if sortOf(u.Elem()) != "" && "E."+fc.eng.elemKey(u.Elem()) == r {
			out = append(out, sx("s-obj", v.T))
		}
	}
	return out
}

// ---------------------------------------------------------------------------
// Contract application at a call site

func (fc *FnCtx) applyContract(con *FuncContract, name string, c *ssa.CallCommon, args []Val, resType types.Type, pos token.Pos, txt string) Val {
	ptypes := sigParamTypes(c.Signature(), c)
	if len(con.Params) != len(args) {
		panic(bindError{fmt.Sprintf("contract %s lists %d parameters but call passes %d", name, len(con.Params), len(args))})
	}
	env := &Env{fc: fc, heap: fc.heap, old: fc.heap, ghost: fc.ghost, oldGhost: fc.ghost, vars: map[string]Val{}, oldvars: map[string]Val{}}
	for i, p := range con.Params {
		a := args[i]
		if a.Typ == nil && i < len(ptypes) {
			a.Typ = ptypes[i]
		}
		if i < len(ptypes) {
			a.Typ = ptypes[i]
		}
		env.vars[p] = a
		env.oldvars[p] = a
	}
	detailBase := shortName(name)
	if txt != "" {
		detailBase += "@" + txt
	}
	for i, r := range con.Requires {
		t := fc.evalBool(r.E, env)
		lbl := fmt.Sprintf("%d", i+1)
		if r.Label != "" {
			lbl = r.Label
		}
		fc.oblige("pre", fmt.Sprintf("%s.%s", detailBase, lbl), t, nil, fmt.Sprintf("precondition of %s: %s", name, r.Text), pos)
	}
	if con.Extern || con.Iface {
		fc.trusted[fmt.Sprintf("assumed contract on %s (%d requires, %d ensures)", name, len(con.Requires), len(con.Ensures))] = true
	}
	if con.Trusted != "" {
		fc.trusted[fmt.Sprintf("trusted contract on %s: %s", name, con.Trusted)] = true
	}
	if con.Opts["mayblock"] != "" {
		fc.blockingPoint("call:"+name, pos)
	} else if con.Iface && (strings.Count(name, ".") == 1 || fc.mayBlock(name)) {
		// a method of one of the package's own interfaces is a call into the implementation (a callback):
		// it may block or call back into the library, so no mutex may be held; likewise transport I/O
		fc.blockingPoint("call:"+name, pos)
	}
	pre := fc.heap
	// frame
	fc.preserve = strings.Fields(con.Opts["preserve"])
	if !con.HasAssigns {
		fc.havocAll("call " + name)
	} else {
		fc.heap = fc.heap.clone()
		for _, a := range con.Assigns {
			fc.havocAssign(a, env)
		}
	}
	// results
	res := fc.freshVal("ret."+shortName(name), resType)
	fc.assumeHere(fc.typeFacts(res, resType))
	// (no freshness assumption: a contracted callee may return values derived from its arguments)
	post := &Env{fc: fc, heap: fc.heap, old: pre, ghost: fc.ghost, oldGhost: fc.ghost, vars: map[string]Val{}, oldvars: env.oldvars, inPost: true}
	if cv, ok := fc.curInstr.(ssa.Value); ok {
		post.callSite = cv
	}
	for k, v := range env.vars {
		post.vars[k] = v
	}
	if len(con.Results) > 0 {
		if tt, ok := resType.(*types.Tuple); ok && tt.Len() > 1 {
			if len(con.Results) != tt.Len() {
				panic(bindError{fmt.Sprintf("contract %s names %d results, callee returns %d", name, len(con.Results), tt.Len())})
			}
			for i, r := range con.Results {
				post.vars[r] = res.Fields[i]
			}
		} else if len(con.Results) == 1 {
			post.vars[con.Results[0]] = res
		}
	}
	// the callee's ghost variables are internal to its own proof
	for _, g := range con.Ghosts {
		s := smtSortName(g.Sort)
		post.vars[g.Name] = Val{T: fc.fresh("calleeghost."+g.Name, s), Sort: s, Math: s == sInt}
	}
	for _, en := range con.Ensures {
		fc.assumeHere(fc.evalBool(en.E, post))
	}
	return res
}

// havocAssign: make the designated locations arbitrary in fc.heap.
func (fc *FnCtx) havocAssign(a *Expr, env *Env) {
	if a.Op == "ident" && a.Name == "everything" {
		fc.havocAll("assigns everything")
		return
	}
	if a.Op == "ident" && a.Name == "fresh" {
		return
	}
	if a.Op == "call" && a.Name == "ghost" {
		for _, g := range a.Args {
			if s, ok := fc.ghostSort[g.Name]; ok {
				fc.ghost = cloneMap(fc.ghost)
				fc.ghost[g.Name] = fc.fresh("ghost."+g.Name, s)
			}
		}
		return
	}
	for _, t := range fc.assignTargets(a, env) {
		switch t.kind {
		case "cell":
			l := t.loc
			fc.storeLoc(fc.heap, l, fc.fresh("havoc."+l.Region, l.Sort))
		case "range":
			fc.havocSliceRangeIdx(t.obj, t.elem, t.lo, t.hi)
		}
	}
}

type assignTarget struct {
	kind        string
	loc         *Loc
	obj, lo, hi string // absolute element indices [lo,hi)
	elem        types.Type
}

// assignTargets evaluates an assigns location expression in env (entry state).
func (fc *FnCtx) assignTargets(a *Expr, env *Env) []assignTarget {
	var out []assignTarget
	oldEnv := *env
	oldEnv.heap = env.old
	oldEnv.ghost = env.oldGhost
	ev := func(e *Expr) Val { return fc.evalExpr(e, &oldEnv) }
	allOf := func(p Val, t types.Type) {
		var rec func(p Val, t types.Type)
		rec = func(p Val, t types.Type) {
			st, ok := structOf(t)
			if !ok {
				if sortOf(t) != "" {
					out = append(out, assignTarget{kind: "cell", loc: fc.ptrLoc(p, t)})
				}
				return
			}
			for i := 0; i < st.NumFields(); i++ {
				f := st.Field(i)
				fa := fc.fieldAddr(t, f, p.T)
				if fa.Loc != nil {
					out = append(out, assignTarget{kind: "cell", loc: fa.Loc})
				} else {
					rec(fa, f.Type())
				}
			}
		}
		rec(p, t)
	}
	switch a.Op {
	case "call":
		switch a.Name {
		case "all":
			p := ev(a.Args[0])
			if p.Typ == nil {
				panic(bindError{"assigns all(" + a.Args[0].String() + "): untyped"})
			}
			allOf(p, derefType(p.Typ))
			return out
		case "elems":
			s := ev(a.Args[0])
			st := s.Typ.Underlying().(*types.Slice)
			out = append(out, assignTarget{kind: "range", obj: sx("s-obj", s.T), lo: sx("s-off", s.T), hi: add(sx("s-off", s.T), sx("s-len", s.T)), elem: st.Elem()})
			return out
		case "mapof":
			m := ev(a.Args[0])
			mt, ok := m.Typ.Underlying().(*types.Map)
			if !ok {
				panic(bindError{"assigns mapof(" + a.Args[0].String() + "): not a map"})
			}
			vs := sortOf(mt.Elem())
			out = append(out, assignTarget{kind: "cell", loc: &Loc{Region: fc.eng.mapRegion(mt, "dom"), Idx: []string{m.T}, Sort: arrSort(sBool)}})
			out = append(out, assignTarget{kind: "cell", loc: &Loc{Region: fc.eng.mapRegion(mt, "val"), Idx: []string{m.T}, Sort: arrSort(vs)}})
			return out
		case "caps":
			s := ev(a.Args[0])
			st := s.Typ.Underlying().(*types.Slice)
			out = append(out, assignTarget{kind: "range", obj: sx("s-obj", s.T), lo: sx("s-off", s.T), hi: add(sx("s-off", s.T), sx("s-cap", s.T)), elem: st.Elem()})
			return out
		}
	case "sel":
		base := ev(a.Args[0])
		path, ft := fc.eng.fieldPath(base.Typ, a.Name)
		if path == nil {
			panic(bindError{fmt.Sprintf("assigns: no field %s in %v", a.Name, base.Typ)})
		}
		p := base
		t := derefType(base.Typ)
		for i, f := range path {
			fa := fc.fieldAddr(t, f, p.T)
			if i == len(path)-1 {
				if fa.Loc != nil {
					out = append(out, assignTarget{kind: "cell", loc: fa.Loc})
				} else {
					allOf(fa, ft)
				}
				return out
			}
			p = fa
			t = f.Type()
		}
	case "slice":
		s := ev(a.Args[0])
		st, ok := s.Typ.Underlying().(*types.Slice)
		if !ok {
			panic(bindError{"assigns: slice expression on non-slice " + a.String()})
		}
		lo := "0"
		if a.Args[1] != nil {
			lo = ev(a.Args[1]).T
		}
		hi := sx("s-len", s.T)
		if a.Args[2] != nil {
			hi = ev(a.Args[2]).T
		}
		out = append(out, assignTarget{kind: "range", obj: sx("s-obj", s.T), lo: add(sx("s-off", s.T), lo), hi: add(sx("s-off", s.T), hi), elem: st.Elem()})
		return out
	case "index":
		s := ev(a.Args[0])
		st, ok := s.Typ.Underlying().(*types.Slice)
		if !ok {
			panic(bindError{"assigns: index on non-slice " + a.String()})
		}
		i := ev(a.Args[1]).T
		lo := add(sx("s-off", s.T), i)
		out = append(out, assignTarget{kind: "range", obj: sx("s-obj", s.T), lo: lo, hi: add(lo, "1"), elem: st.Elem()})
		return out
	case "ident":
		// a pointer parameter p means *p (scalar cell) ; a global name means that global
		v := ev(a)
		if v.Loc != nil {
			out = append(out, assignTarget{kind: "cell", loc: v.Loc})
			return out
		}
	}
	panic(bindError{"unsupported assigns location: " + a.String()})
}

// havocSliceRange: elements [lo,hi) (relative to the slice) become arbitrary.
func (fc *FnCtx) havocSliceRange(s string, elem types.Type, lo, hi string) {
	fc.havocSliceRangeIdx(sx("s-obj", s), elem, add(sx("s-off", s), lo), add(sx("s-off", s), hi))
}

func (fc *FnCtx) havocSliceRangeIdx(obj string, elem types.Type, lo, hi string) {
	if es := sortOf(elem); es != "" {
		region := "E." + fc.eng.elemKey(elem)
		r := fc.heap.get(region, arr2Sort(es))
		inner := fc.fresh("havoc."+region, arrSort(es))
		fc.assumeHere(fmt.Sprintf("(forall ((k Int)) (! (=> (or (< k %s) (>= k %s)) (= (select %s k) (select (select %s %s) k))) :pattern ((select %s k))))", lo, hi, inner, r, obj, inner))
		if k, ok := intKindOf(elem); ok {
			fc.assumeHere(fmt.Sprintf("(forall ((k Int)) (! %s :pattern ((select %s k))))", k.inRange(sx("select", inner, "k")), inner))
		}
		fc.heap.set(region, store(r, obj, inner))
		return
	}
	// struct elements
	key := fc.eng.typeKey(elem)
	fc.elemRef(elem, obj, lo)
	eo, ei := qsym("elem."+key+".obj"), qsym("elem."+key+".idx")
	k := fc.eng.typeIDOf(types.NewSlice(elem))*1000 + 999
	for _, cell := range fc.flattenCells(elem, "") {
		old := fc.heap.get(cell.region, arrSort(cell.sort))
		nw := fc.fresh(cell.region+"@hv", arrSort(cell.sort))
		if cell.path == "" {
			inRange := and(eq(sx("kind", "r"), num(int64(k))), eq(sx(eo, "r"), obj), sx("<=", lo, sx(ei, "r")), sx("<", sx(ei, "r"), hi))
			fc.assumeHere(fmt.Sprintf("(forall ((r Int)) (! (=> (not %s) (= (select %s r) (select %s r))) :pattern ((select %s r))))", inRange, nw, old, nw))
		}
		fc.heap.set(cell.region, nw)
	}
}

func cloneMap(m map[string]string) map[string]string {
	n := map[string]string{}
	for k, v := range m {
		n[k] = v
	}
	return n
}

// ---------------------------------------------------------------------------
// Frame check at return: everything outside `assigns` is unchanged.

func (fc *FnCtx) checkFrame(pos token.Pos) {
	env := fc.entryEnv()
	var targets []assignTarget
	everything := false
	for _, a := range fc.con.Assigns {
		if a.Op == "ident" && a.Name == "everything" {
			everything = true
			continue
		}
		if a.Op == "ident" && a.Name == "fresh" {
			continue
		}
		if a.Op == "call" && a.Name == "ghost" {
			continue
		}
		targets = append(targets, fc.assignTargets(a, env)...)
	}
	if everything {
		return
	}
	// all regions mentioned so far in the current heap chain
	regions := map[string]string{}
	fc.collectRegions(regions)
	var myIDs []string
	for _, id := range fc.allocIDs {
		myIDs = append(myIDs, num(int64(id)))
	}
	mine := func(ref string) string {
		var fs []string
		for _, id := range myIDs {
			fs = append(fs, eq(sx("allocid", ref), id))
		}
		return or(fs...)
	}
	for _, r := range sortedKeysS(regions) {
		sort := regions[r]
		if fc.immutableRegion(r) || strings.HasPrefix(r, "ghost.") {
			continue
		}
		final := fc.heap.get(r, sort)
		init := fc.entryHeap.get(r, sort)
		if final == init {
			continue
		}
		var goal string
		switch {
		case strings.HasPrefix(r, "G."):
			ok := "false"
			for _, t := range targets {
				if t.kind == "cell" && t.loc.Region == r {
					ok = "true"
				}
			}
			goal = or(eq(final, init), ok)
		case strings.HasPrefix(sort, "(Array Int (Array Int"):
			o := fc.fresh("frame.o", sInt)
			k := fc.fresh("frame.k", sInt)
			var ex []string
			for _, t := range targets {
				if t.kind == "range" && fc.rangeRegion(t) == r {
					ex = append(ex, and(eq(o, t.obj), sx("<=", t.lo, k), sx("<", k, t.hi)))
				}
				if t.kind == "cell" && t.loc.Region == r && len(t.loc.Idx) == 2 {
					ex = append(ex, and(eq(o, t.loc.Idx[0]), eq(k, t.loc.Idx[1])))
				}
				if t.kind == "cell" && t.loc.Region == r && len(t.loc.Idx) == 1 {
					ex = append(ex, eq(o, t.loc.Idx[0]))
				}
			}
			ex = append(ex, mine(o))
			goal = or(append([]string{eq(sel2(final, o, k), sel2(init, o, k))}, ex...)...)
		default:
			o := fc.fresh("frame.r", sInt)
			var ex []string
			for _, t := range targets {
				if t.kind == "cell" && t.loc.Region == r && len(t.loc.Idx) == 1 {
					ex = append(ex, eq(o, t.loc.Idx[0]))
				}
				if t.kind == "range" && sortOf(t.elem) == "" {
					// struct elements in range
					key := fc.eng.typeKey(t.elem)
					eo, ei := qsym("elem."+key+".obj"), qsym("elem."+key+".idx")
					kk := fc.eng.typeIDOf(types.NewSlice(t.elem))*1000 + 999
					for _, cell := range fc.flattenCells(t.elem, "") {
						if cell.region == r && cell.path == "" {
							ex = append(ex, and(eq(sx("kind", o), num(int64(kk))), eq(sx(eo, o), t.obj), sx("<=", t.lo, sx(ei, o)), sx("<", sx(ei, o), t.hi)))
						}
					}
				}
			}
			ex = append(ex, mine(o))
			goal = or(append([]string{eq(sel(final, o), sel(init, o))}, ex...)...)
		}
		fc.oblige("frame", r, goal, nil, "nothing outside `assigns` changes in region "+r, pos)
	}
}

func (fc *FnCtx) rangeRegion(t assignTarget) string {
	if sortOf(t.elem) != "" {
		return "E." + fc.eng.elemKey(t.elem)
	}
	return ""
}

func sortedKeysS(m map[string]string) []string {
	b := map[string]bool{}
	for k := range m {
		b[k] = true
	}
	return sortedKeys(b)
}

// collectRegions: the regions (with sorts) declared so far for this function.
func (fc *FnCtx) collectRegions(out map[string]string) {
	for _, d := range fc.decls {
		// (declare-const |R@0| sort)
		if !strings.HasPrefix(d, "(declare-const ") {
			continue
		}
		rest := d[len("(declare-const "):]
		var name string
		if strings.HasPrefix(rest, "|") {
			j := strings.Index(rest[1:], "|")
			name = rest[1 : j+1]
			rest = rest[j+2:]
		} else {
			j := strings.Index(rest, " ")
			name = rest[:j]
			rest = rest[j:]
		}
		if !strings.HasSuffix(name, "@0") {
			continue
		}
		r := strings.TrimSuffix(name, "@0")
		if r == "held" {
			continue
		}
		sort := strings.TrimSpace(strings.TrimSuffix(strings.TrimSpace(rest), ")"))
		if strings.HasPrefix(sort, "(Array") || strings.HasPrefix(r, "G.") {
			if strings.HasPrefix(r, "F.") || strings.HasPrefix(r, "E.") || strings.HasPrefix(r, "C.") || strings.HasPrefix(r, "M.") || strings.HasPrefix(r, "G.") {
				out[r] = sort
			}
		}
	}
}

// ---------------------------------------------------------------------------
// Builtins

func (fc *FnCtx) builtin(b *ssa.Builtin, c *ssa.CallCommon, pos token.Pos, resType types.Type) Val {
	intT := types.Typ[types.Int]
	switch b.Name() {
	case "len":
		a := fc.valOf(c.Args[0])
		switch at := c.Args[0].Type().Underlying().(type) {
		case *types.Slice:
			return scalar(sx("s-len", a.T), sInt, intT)
		case *types.Basic:
			return scalar(sx("slen", a.T), sInt, intT)
		case *types.Map:
			r := scalar(sx("maplen", a.T), sInt, intT)
			fc.assumeHere(sx("<=", "0", r.T))
			return r
		case *types.Pointer:
			if arr, ok := at.Elem().Underlying().(*types.Array); ok {
				return scalar(num(arr.Len()), sInt, intT)
			}
		case *types.Chan:
			r := scalar(fc.fresh("chanlen", sInt), sInt, intT)
			fc.assumeHere(sx("<=", "0", r.T))
			return r
		}
		return fc.freshVal("len", intT)
	case "cap":
		a := fc.valOf(c.Args[0])
		if _, ok := c.Args[0].Type().Underlying().(*types.Slice); ok {
			return scalar(sx("s-cap", a.T), sInt, intT)
		}
		r := scalar(fc.fresh("cap", sInt), sInt, intT)
		fc.assumeHere(sx("<=", "0", r.T))
		return r
	case "copy":
		dst := fc.valOf(c.Args[0])
		src := fc.valOf(c.Args[1])
		dt := c.Args[0].Type().Underlying().(*types.Slice)
		var srcLen string
		srcIsStr := src.IsStr
		if srcIsStr {
			srcLen = sx("slen", src.T)
		} else {
			srcLen = sx("s-len", src.T)
		}
		n := fc.fresh("copy.n", sInt)
		fc.assumeHere(eq(n, ite(sx("<=", sx("s-len", dst.T), srcLen), sx("s-len", dst.T), srcLen)))
		es := sortOf(dt.Elem())
		if es == "" {
			fc.note("unsupported: copy of aggregate elements (%s); destination havocked", dt.Elem())
			fc.havocSliceRange(dst.T, dt.Elem(), "0", n)
			return scalar(n, sInt, intT)
		}
		region := "E." + fc.eng.elemKey(dt.Elem())
		r := fc.heap.get(region, arr2Sort(es))
		inner := fc.fresh("copy."+region, arrSort(es))
		dobj, doff := sx("s-obj", dst.T), sx("s-off", dst.T)
		var srcAt string
		if srcIsStr {
			srcAt = fmt.Sprintf("(sbyte %s (- k %s))", src.T, doff)
		} else {
			srcAt = fmt.Sprintf("(select (select %s (s-obj %s)) (+ (s-off %s) (- k %s)))", r, src.T, src.T, doff)
		}
		fc.assumeHere(fmt.Sprintf("(forall ((k Int)) (! (= (select %s k) (ite (and (<= %s k) (< k (+ %s %s))) %s (select (select %s %s) k))) :pattern ((select %s k))))",
			inner, doff, doff, n, srcAt, r, dobj, inner))
		fc.heap.set(region, store(r, dobj, inner))
		return scalar(n, sInt, intT)
	case "append":
		s := fc.valOf(c.Args[0])
		st := c.Args[0].Type().Underlying().(*types.Slice)
		// result: arbitrary slice whose prefix equals s and whose tail equals the appended elements
		var addLen string
		var add Val
		if len(c.Args) > 1 {
			add = fc.valOf(c.Args[1])
			if add.IsStr {
				addLen = sx("slen", add.T)
			} else {
				addLen = sx("s-len", add.T)
			}
		} else {
			addLen = "0"
		}
		res := fc.freshVal("append", c.Args[0].Type())
		fc.assumeHere(sliceWF(res.T))
		fc.assumeHere(eq(sx("s-len", res.T), sx("+", sx("s-len", s.T), addLen)))
		es := sortOf(st.Elem())
		if es != "" {
			region := "E." + fc.eng.elemKey(st.Elem())
			r := fc.heap.get(region, arr2Sort(es))
			// either in place (same object, room in cap) or a fresh object
			inner := fc.fresh("append."+region, arrSort(es))
			robj, roff := sx("s-obj", res.T), sx("s-off", res.T)
			inplace := and(sx("<=", sx("+", sx("s-len", s.T), addLen), sx("s-cap", s.T)), not(eq(sx("s-obj", s.T), "0")))
			fc.assumeHere(implies(inplace, and(eq(robj, sx("s-obj", s.T)), eq(roff, sx("s-off", s.T)), eq(sx("s-cap", res.T), sx("s-cap", s.T)))))
			nid := fc.nalloc + 1000 + fc.nfresh
			fc.assumeHere(implies(not(inplace), and(not(eq(robj, "0")), eq(roff, "0"), eq(sx("allocid", robj), num(int64(nid))), eq(sx("kind", robj), "0"))))
			// allocation clock: a reallocated backing array is younger than everything that existed before
			if prev, ok := fc.ghost["now"]; ok {
				fc.ghost = cloneMap(fc.ghost)
				now := fc.fresh("now", sInt)
				fc.assumeHere(eq(now, sx("+", prev, "1")))
				fc.ghost["now"] = now
				fc.assumeHere(implies(not(inplace), eq(sx("born", robj), now)))
			}
			var srcAt string
			if len(c.Args) > 1 {
				if add.IsStr {
					srcAt = fmt.Sprintf("(sbyte %s (- k (+ %s (s-len %s))))", add.T, roff, s.T)
				} else {
					srcAt = fmt.Sprintf("(select (select %s (s-obj %s)) (+ (s-off %s) (- k (+ %s (s-len %s)))))", r, add.T, add.T, roff, s.T)
				}
			} else {
				srcAt = zeroOf(es)
			}
			oldAt := fmt.Sprintf("(select (select %s (s-obj %s)) (+ (s-off %s) (- k %s)))", r, s.T, s.T, roff)
			fc.assumeHere(fmt.Sprintf("(forall ((k Int)) (! (= (select %s k) (ite (and (<= %s k) (< k (+ %s (s-len %s)))) %s (ite (and (<= (+ %s (s-len %s)) k) (< k (+ %s (s-len %s)))) %s (select (select %s %s) k)))) :pattern ((select %s k))))",
				inner, roff, roff, s.T, oldAt, roff, s.T, roff, res.T, srcAt, r, robj, inner))
			fc.heap.set(region, store(r, robj, inner))
		} else {
			fc.note("unsupported: append of aggregate elements (%s)", st.Elem())
		}
		return res
	case "delete":
		m := fc.valOf(c.Args[0])
		k := fc.valOf(c.Args[1])
		mt := c.Args[0].Type().Underlying().(*types.Map)
		fc.checkGuard(c.Args[0], pos, true)
		if k.Sort == sInt {
			dr := fc.eng.mapRegion(mt, "dom")
			dom := fc.heap.get(dr, arr2Sort(sBool))
			fc.heap.set(dr, ite(eq(m.T, "0"), dom, store(dom, m.T, store(sel(dom, m.T), k.T, "false"))))
		}
		return Val{Typ: resType}
	case "recover":
		return scalar(zeroOf(sIface), sIface, resType)
	case "print", "println":
		return Val{Typ: resType}
	case "close":
		// channels of this library are shared with concurrent senders (request workers, callers of Log/Rpc):
		// closing one makes a later send panic. A function that may close a channel must say so (opt mayclose).
		if fc.con.Opts["mayclose"] == "" {
			if _, ok := fc.ghost["closedany"]; ok {
				// checked at the returns (chan:noclose), where the claim exists even without any close site
				fc.ghost = cloneMap(fc.ghost)
				fc.ghost["closedany"] = "true"
			} else {
				fc.oblige("chan:close", fc.srcText(pos), "false", nil, "a channel that other goroutines send on is never closed", pos)
			}
		}
		return Val{Typ: resType}
	case "min", "max":
		a, b2 := fc.valOf(c.Args[0]), fc.valOf(c.Args[1])
		op := "<="
		if b.Name() == "max" {
			op = ">="
		}
		return scalar(ite(sx(op, a.T, b2.T), a.T, b2.T), sInt, resType)
	}
	fc.note("unsupported builtin %s", b.Name())
	return fc.freshVal("builtin", resType)
}

// ---------------------------------------------------------------------------
// go, defer

func (fc *FnCtx) execGo(x *ssa.Go) {
	c := x.Common()
	name := fc.calleeName(c)
	var args []Val
	for _, a := range c.Args {
		args = append(args, fc.valOf(a))
	}
	fc.hookAnchor("go", name, x, args, c)
	if con := fc.eng.cs.Funcs[name]; con != nil && len(con.Requires) > 0 && !c.IsInvoke() {
		env := &Env{fc: fc, heap: fc.heap, old: fc.heap, ghost: fc.ghost, oldGhost: fc.ghost, vars: map[string]Val{}, oldvars: map[string]Val{}}
		ptypes := sigParamTypes(c.Signature(), c)
		for i, p := range con.Params {
			if i < len(args) {
				a := args[i]
				if i < len(ptypes) {
					a.Typ = ptypes[i]
				}
				env.vars[p] = a
			}
		}
		for i, r := range con.Requires {
			if strings.Contains(r.Text, "held") {
				continue // the new goroutine starts with no locks
			}
			fc.oblige("pre", fmt.Sprintf("go:%s.%d", shortName(name), i+1), fc.evalBool(r.E, env), nil, "precondition of spawned "+name+": "+r.Text, x.Pos())
		}
	}
}

func (fc *FnCtx) execDefer(x *ssa.Defer) {
	c := x.Common()
	d := deferred{call: c, reach: fc.curReach, instr: x}
	if c.IsInvoke() {
		d.recv = fc.valOf(c.Value)
	}
	for _, a := range c.Args {
		d.args = append(d.args, fc.valOf(a))
	}
	// make argument values available later through vals
	fc.defers = append(fc.defers, d)
}

func (fc *FnCtx) runDefers() {
	for i := len(fc.defers) - 1; i >= 0; i-- {
		d := fc.defers[i]
		if d.reach != "true" && d.reach != fc.reach[fc.fn.Blocks[0]] {
			// conditional defer: over-approximate
			fc.note("imprecise: conditionally registered defer of %s treated as always run", fc.calleeName(d.call))
		}
		if _, isClosure := d.call.Value.(*ssa.MakeClosure); isClosure {
			fc.note("deferred closure: heap havocked at function exit")
			fc.havocAll("deferred closure")
			continue
		}
		fc.doCall(d.instr, d.call, d.instr.Pos())
	}
}

// ---------------------------------------------------------------------------
// Locks (ghost held-set), guarded fields, blocking points

func (fc *FnCtx) lockOp(m Val, lock bool, pos token.Pos, txt string) {
	held := fc.ghost["held"]
	fc.ghost = cloneMap(fc.ghost)
	if lock {
		fc.oblige("lock:nodouble", txt, not(sel(held, m.T)), nil, "mutex is not already held by this goroutine", pos)
		fc.ghost["held"] = store(held, m.T, "true")
		fc.hookAnchor("lock", txt, nil, []Val{m}, nil)
		// `at lock(m) ensures E`: a monitor invariant assumed on acquisition
		fc.preCallHeap, fc.preCallGhost = fc.heap, fc.ghost
		fc.hookAnchorAfter("lock", txt, nil, []Val{m}, Val{}, nil)
	} else {
		fc.oblige("lock:held", txt, sel(held, m.T), nil, "mutex is held when unlocked", pos)
		fc.hookAnchor("unlock", txt, nil, []Val{m}, nil)
		fc.ghost["held"] = store(held, m.T, "false")
	}
}

// blockingPoint: an operation that may block or call back into unknown code; no mutex may be held.
func (fc *FnCtx) blockingPoint(what string, pos token.Pos) {
	if fc.con.Opts["lockcheck"] == "" {
		return
	}
	m := fc.fresh("anymutex", sInt)
	fc.oblige("lock:block", what, not(sel(fc.ghost["held"], m)), nil, "no mutex is held at "+what, pos)
}

// checkGuard: accesses to fields declared `guarded` require the guarding mutex.
func (fc *FnCtx) checkGuard(addr ssa.Value, pos token.Pos, write bool) {
	if fc.con.Opts["lockcheck"] == "" {
		return
	}
	fa, ok := addr.(*ssa.FieldAddr)
	if !ok {
		// map operations: the map value was loaded from a guarded field
		if u, ok := addr.(*ssa.UnOp); ok && u.Op == token.MUL {
			if fa2, ok := u.X.(*ssa.FieldAddr); ok {
				fa = fa2
			} else {
				return
			}
		} else {
			return
		}
	}
	st := derefType(fa.X.Type())
	s, _ := structOf(st)
	f := s.Field(fa.Field)
	tn := fc.eng.typeKey(st)
	for _, cl := range fc.eng.cs.Fields {
		if cl.Type != tn || cl.Field != f.Name() || cl.Class != "guarded" {
			continue
		}
		base := fc.valOf(fa.X)
		// guard object: the same object (By == Type) with embedded Mutex, or a path expression from the object
		mref := fc.guardMutex(base, st, cl.By)
		if mref == "" {
			continue
		}
		// unpublished objects (allocated here and not yet escaped) need no lock
		fc.oblige("lock:guard", tn+"."+f.Name()+"@"+fc.srcText(pos), or(sel(fc.ghost["held"], mref), fc.isLocalAlloc(base.T)), nil,
			fmt.Sprintf("mutex of %s is held when accessing guarded field %s.%s", cl.By, tn, f.Name()), pos)
	}
}

func (fc *FnCtx) isLocalAlloc(ref string) string {
	var fs []string
	for _, id := range fc.allocIDs {
		fs = append(fs, eq(sx("allocid", ref), num(int64(id))))
	}
	return or(fs...)
}

// guardMutex returns the reference of the mutex guarding fields of object base (of struct type st).
func (fc *FnCtx) guardMutex(base Val, st types.Type, by string) string {
	cur := base
	t := st
	parts := strings.Split(by, ".")
	// first part names the type of the object itself
	for _, p := range parts[1:] {
		path, ft := fc.eng.fieldPath(types.NewPointer(t), p)
		if path == nil {
			return ""
		}
		for _, f := range path {
			fa := fc.fieldAddr(t, f, cur.T)
			if fa.Loc != nil {
				cur = fc.loadLoc(fc.heap, fa.Loc)
			} else {
				cur = fa
			}
			t = f.Type()
		}
		t = derefType(ft)
	}
	s, ok := structOf(t)
	if !ok {
		return ""
	}
	for i := 0; i < s.NumFields(); i++ {
		f := s.Field(i)
		if f.Embedded() && types.TypeString(f.Type(), nil) == "sync.Mutex" {
			return fc.subRef(t, f, cur.T)
		}
	}
	return ""
}

// ---------------------------------------------------------------------------
// Constant arrays

func (e *Engine) constArrayValues(g *ssa.Global) []string {
	init, ok := e.globalInit[g]
	if !ok {
		return nil
	}
	cl, ok := init.(*ast.CompositeLit)
	if !ok {
		return nil
	}
	var out []string
	for _, el := range cl.Elts {
		tv, ok := e.info.Types[el]
		if !ok || tv.Value == nil || tv.Value.Kind() != constant.Int {
			return nil
		}
		out = append(out, tv.Value.ExactString())
	}
	return out
}

// havocPointee: the object a pointer argument designates becomes arbitrary (extern callee may write it).
func (fc *FnCtx) havocPointee(v ssa.Value, depth int) {
	if depth > 2 {
		return
	}
	if mi, ok := v.(*ssa.MakeInterface); ok {
		fc.havocPointee(mi.X, depth+1)
		return
	}
	pt, ok := v.Type().Underlying().(*types.Pointer)
	if !ok {
		return
	}
	pv := fc.valOf(v)
	elem := pt.Elem()
	if pv.Loc != nil {
		fc.heap = fc.heap.clone()
		nv := fc.fresh("havoc."+pv.Loc.Region, pv.Loc.Sort)
		fc.storeLoc(fc.heap, pv.Loc, nv)
		if k, ok := intKindOf(elem); ok {
			fc.assumeHere(k.inRange(nv))
		}
		return
	}
	if sortOf(elem) != "" {
		fc.heap = fc.heap.clone()
		l := fc.ptrLoc(pv, elem)
		nv := fc.fresh("havoc."+l.Region, l.Sort)
		fc.storeLoc(fc.heap, l, nv)
		if k, ok := intKindOf(elem); ok {
			fc.assumeHere(k.inRange(nv))
		}
		return
	}
	if _, ok := structOf(elem); ok {
		fc.heap = fc.heap.clone()
		nv := fc.freshVal("havoc.struct", elem)
		fc.assumeHere(fc.typeFacts(nv, elem))
		fc.storeVal(fc.heap, pv, elem, nv)
	}
}

// advanceClock: after a call the allocation clock has moved on by an unknown amount.
func (fc *FnCtx) advanceClock() {
	if old, ok := fc.ghost["now"]; ok {
		fc.ghost = cloneMap(fc.ghost)
		n := fc.fresh("now", sInt)
		fc.assumeHere(sx(">=", n, old))
		fc.ghost["now"] = n
	}
}
