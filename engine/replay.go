package main

import (
	"bytes"
	"context"
	"encoding/json"
	"flag"
	"fmt"
	"go/types"
	"os"
	"os/exec"
	"path/filepath"
	"regexp"
	"strconv"
	"strings"
	"time"

	"golang.org/x/tools/go/ssa"
)

// Replay of solver counterexamples against the real code.
//
// A failed obligation whose function takes only integers, booleans, strings and byte slices is
// re-solved in "counterexample mode" (sizes bounded so that the inputs can be read off the model
// with get-value), the inputs are turned into an in-package Go test injected with
// `go test -overlay` (nothing is written into the repository), and the test checks the negated
// obligation on the real function: a run-time panic for safety obligations, a hand-written
// executable form of the postcondition where one is registered (see replayOracles).

type Replay struct {
	Source    string
	Output    string
	Confirmed bool
	Inputs    map[string]interface{}
	Note      string
}

func (o *Obligation) replayConfirmed() bool { return o.Replay != nil && o.Replay.Confirmed }

var safetyKinds = map[string]bool{"bounds:index": true, "bounds:slice": true, "nil": true, "pre": true, "div": true, "assert:type": true, "panic": true, "alloc": true}

type replayParam struct {
	name string
	kind string // int, bool, string, bytes
	typ  string // Go type text
	val  Val
}

// replayable: can a test be generated for this obligation at all?
func replayable(o *Obligation) bool {
	if o.fc == nil || o.fc.fn == nil {
		return false
	}
	fn := o.fc.fn
	if fn.Signature.Recv() != nil {
		return false
	}
	for _, p := range fn.Params {
		switch t := p.Type().Underlying().(type) {
		case *types.Basic:
			if t.Info()&(types.IsInteger|types.IsBoolean|types.IsString) == 0 {
				return false
			}
		case *types.Slice:
			if b, ok := t.Elem().Underlying().(*types.Basic); !ok || b.Kind() != types.Uint8 {
				return false
			}
		default:
			return false
		}
	}
	if !safetyKinds[o.Kind] && (replayOracles[o.fc.name] == "" || o.Kind != "post") {
		return false
	}
	return true
}

func tryReplay(e *Engine, root, prop string, o *Obligation) {
	if o.fc == nil || o.fc.fn == nil || o.Replay != nil {
		return
	}
	fn := o.fc.fn
	if fn.Signature.Recv() != nil {
		o.Replay = &Replay{Note: "no replay generator for methods"}
		return
	}
	var params []replayParam
	for _, p := range fn.Params {
		rp := replayParam{name: p.Name(), val: o.fc.vals[p], typ: types.TypeString(p.Type(), func(*types.Package) string { return "" })}
		switch t := p.Type().Underlying().(type) {
		case *types.Basic:
			switch {
			case t.Info()&types.IsInteger != 0:
				rp.kind = "int"
			case t.Info()&types.IsBoolean != 0:
				rp.kind = "bool"
			case t.Info()&types.IsString != 0:
				rp.kind = "string"
			}
		case *types.Slice:
			if b, ok := t.Elem().Underlying().(*types.Basic); ok && b.Kind() == types.Uint8 {
				rp.kind = "bytes"
			}
		}
		if rp.kind == "" {
			o.Replay = &Replay{Note: "no replay generator for parameter type " + rp.typ}
			return
		}
		params = append(params, rp)
	}
	oracle := replayOracles[o.fc.name]
	if !safetyKinds[o.Kind] && (oracle == "" || o.Kind != "post") {
		o.Replay = &Replay{Note: "no executable oracle for obligation kind " + o.Kind}
		return
	}
	// counterexample mode: bound the sizes, ask for values
	for _, bound := range []int{24, 256} {
		inputs, out, ok := solveForInputs(o, params, bound)
		if !ok {
			_ = out
			continue
		}
		src := genReplayTest(o, fn, params, inputs, oracle)
		res, confirmed := runReplayTest(e.repo, src)
		o.Replay = &Replay{Source: src, Output: res, Confirmed: confirmed, Inputs: inputs}
		if confirmed {
			return
		}
	}
	if o.Replay == nil {
		o.Replay = &Replay{Note: "no model with small inputs"}
	}
}

func solveForInputs(o *Obligation, params []replayParam, bound int) (map[string]interface{}, string, bool) {
	var b strings.Builder
	// counterexample mode is quantifier-free: quantified assumptions are dropped (the replay on the real code,
	// not the solver, decides whether the resulting input is a genuine counterexample)
	for _, line := range strings.Split(strings.TrimSuffix(strings.TrimSpace(o.SMT(0)), "(check-sat)"), "\n") {
		if strings.HasPrefix(line, "(assert") && (strings.Contains(line, "(forall ") || strings.Contains(line, "(exists ")) && !strings.HasPrefix(line, "(assert (not ") {
			continue
		}
		b.WriteString(line)
		b.WriteByte('\n')
	}
	mem := qsym("E.u8@0")
	hasMem := o.fc.declared[mem]
	var terms []string
	for _, p := range params {
		switch p.kind {
		case "int", "bool":
			terms = append(terms, p.val.T)
		case "string":
			b.WriteString(fmt.Sprintf("(assert (<= (slen %s) %d))\n", p.val.T, bound))
			terms = append(terms, sx("slen", p.val.T))
			for k := 0; k < bound; k++ {
				t := sx("sbyte", p.val.T, num(int64(k)))
				b.WriteString(fmt.Sprintf("(assert (and (<= 0 %s) (<= %s 255)))\n", t, t))
				terms = append(terms, t)
			}
		case "bytes":
			b.WriteString(fmt.Sprintf("(assert (<= (s-cap %s) %d))\n", p.val.T, bound))
			terms = append(terms, sx("s-len", p.val.T), sx("s-cap", p.val.T), sx("s-obj", p.val.T))
			if hasMem {
				for k := 0; k < bound; k++ {
					t := sel2(mem, sx("s-obj", p.val.T), add(sx("s-off", p.val.T), num(int64(k))))
					b.WriteString(fmt.Sprintf("(assert (and (<= 0 %s) (<= %s 255)))\n", t, t))
					terms = append(terms, t)
				}
			}
		}
	}
	b.WriteString("(check-sat)\n(get-value (" + strings.Join(terms, " ") + "))\n")
	dir, err := os.MkdirTemp("", "gvc-replay-")
	if err != nil {
		return nil, "", false
	}
	defer os.RemoveAll(dir)
	file := filepath.Join(dir, "cex.smt2")
	os.WriteFile(file, []byte(b.String()), 0o644)
	for _, sd := range solvers[:2] {
		argv := sd.argv(file, 8*time.Second, 0)
		ctx, cancel := context.WithTimeout(context.Background(), 10*time.Second)
		cmd := exec.CommandContext(ctx, argv[0], argv[1:]...)
		var out bytes.Buffer
		cmd.Stdout = &out
		cmd.Stderr = &out
		_ = cmd.Run()
		cancel()
		s := out.String()
		if !strings.HasPrefix(strings.TrimSpace(s), "sat") {
			continue
		}
		vals := parseGetValue(s[strings.Index(s, "sat")+3:])
		if len(vals) < len(terms) {
			continue
		}
		inputs := map[string]interface{}{}
		i := 0
		for _, p := range params {
			switch p.kind {
			case "int":
				inputs[p.name] = vals[i]
				i++
			case "bool":
				inputs[p.name] = vals[i] == "true"
				i++
			case "string":
				n := atoi(vals[i])
				i++
				bs := make([]int, 0, n)
				for k := 0; k < bound; k++ {
					if k < n {
						bs = append(bs, atoi(vals[i])&255)
					}
					i++
				}
				inputs[p.name] = bs
			case "bytes":
				n, c, ob := atoi(vals[i]), atoi(vals[i+1]), atoi(vals[i+2])
				i += 3
				bs := make([]int, 0, c)
				if hasMem {
					for k := 0; k < bound; k++ {
						if k < c {
							bs = append(bs, atoi(vals[i])&255)
						}
						i++
					}
				} else {
					for k := 0; k < c; k++ {
						bs = append(bs, 0)
					}
				}
				inputs[p.name] = map[string]interface{}{"len": n, "cap": c, "nil": ob == 0, "bytes": bs}
			}
		}
		return inputs, s, true
	}
	return nil, "", false
}

func atoi(s string) int {
	s = strings.TrimSpace(s)
	neg := false
	if strings.HasPrefix(s, "(-") {
		neg = true
		s = strings.TrimSuffix(strings.TrimSpace(s[2:]), ")")
	}
	n, _ := strconv.ParseInt(strings.TrimSpace(s), 10, 64)
	if neg {
		n = -n
	}
	return int(n)
}

// parseGetValue extracts the values from "((t1 v1) (t2 v2) ...)" in order.
func parseGetValue(s string) []string {
	root := parseSexpr(strings.TrimSpace(s))
	if root == nil {
		return nil
	}
	var out []string
	for _, pair := range root.kids {
		if len(pair.kids) == 2 {
			out = append(out, pair.kids[1].text)
		}
	}
	return out
}

func goInt(v interface{}, typ string) string {
	s := fmt.Sprintf("%v", v)
	n := atoi(s)
	if strings.HasPrefix(strings.TrimSpace(s), "(-") || n < 0 {
		return fmt.Sprintf("%s(%d)", typ, n)
	}
	// large unsigned values
	s = strings.TrimSpace(s)
	if _, err := strconv.ParseUint(s, 10, 64); err == nil {
		return fmt.Sprintf("%s(%s)", typ, s)
	}
	return fmt.Sprintf("%s(%d)", typ, n)
}

func genReplayTest(o *Obligation, fn *ssa.Function, params []replayParam, inputs map[string]interface{}, oracle string) string {
	var b strings.Builder
	b.WriteString("package go9p\n\nimport (\n\tgvcfmt \"fmt\"\n\tgvctesting \"testing\"\n)\n\n")
	b.WriteString("// replay of obligation " + o.Name + "\n")
	b.WriteString("func TestGvcReplay(t *gvctesting.T) {\n")
	var args []string
	for _, p := range params {
		v := inputs[p.name]
		switch p.kind {
		case "int":
			b.WriteString(fmt.Sprintf("\tgvc_%s := %s\n", p.name, goInt(v, p.typ)))
		case "bool":
			b.WriteString(fmt.Sprintf("\tgvc_%s := %v\n", p.name, v))
		case "string":
			bs := v.([]int)
			b.WriteString(fmt.Sprintf("\tgvc_%s := string([]byte{%s})\n", p.name, joinInts(bs)))
		case "bytes":
			m := v.(map[string]interface{})
			if m["nil"].(bool) {
				b.WriteString(fmt.Sprintf("\tvar gvc_%s []byte\n", p.name))
			} else {
				b.WriteString(fmt.Sprintf("\tgvc_%s := []byte{%s}[:%d]\n", p.name, joinInts(m["bytes"].([]int)), m["len"].(int)))
			}
		}
		args = append(args, "gvc_"+p.name)
	}
	call := fn.Name() + "(" + strings.Join(args, ", ") + ")"
	b.WriteString("\tgvcPanicked := true\n\tvar gvcWhat interface{}\n")
	b.WriteString("\tfunc() {\n\t\tdefer func() { gvcWhat = recover() }()\n")
	nres := fn.Signature.Results().Len()
	if oracle != "" && o.Kind == "post" {
		var rs []string
		for i := 0; i < nres; i++ {
			rs = append(rs, fmt.Sprintf("r%d", i))
		}
		if nres > 0 {
			b.WriteString("\t\t" + strings.Join(rs, ", ") + " := " + call + "\n")
		} else {
			b.WriteString("\t\t" + call + "\n")
		}
		b.WriteString("\t\tgvcPanicked = false\n")
		b.WriteString("\t\tif msg := func() string {\n" + oracle + "\n\t\t\treturn \"\"\n\t\t}(); msg != \"\" {\n\t\t\tgvcfmt.Println(\"GVC-REPLAY CONFIRMED postcondition violated:\", msg)\n\t\t} else {\n\t\t\tgvcfmt.Println(\"GVC-REPLAY NOT-CONFIRMED postcondition holds on this input\")\n\t\t}\n")
	} else {
		if nres > 0 {
			blanks := strings.TrimSuffix(strings.Repeat("_, ", nres), ", ")
			b.WriteString("\t\t" + blanks + " = " + call + "\n")
		} else {
			b.WriteString("\t\t" + call + "\n")
		}
		b.WriteString("\t\tgvcPanicked = false\n")
	}
	b.WriteString("\t}()\n")
	if !(oracle != "" && o.Kind == "post") {
		b.WriteString("\tif gvcPanicked {\n\t\tgvcfmt.Println(\"GVC-REPLAY CONFIRMED panic:\", gvcWhat)\n\t} else {\n\t\tgvcfmt.Println(\"GVC-REPLAY NOT-CONFIRMED no panic on this input\")\n\t}\n")
	} else {
		b.WriteString("\tif gvcPanicked {\n\t\tgvcfmt.Println(\"GVC-REPLAY CONFIRMED panic:\", gvcWhat)\n\t}\n")
	}
	b.WriteString("}\n")
	return b.String()
}

func joinInts(xs []int) string {
	var ss []string
	for _, x := range xs {
		ss = append(ss, strconv.Itoa(x))
	}
	return strings.Join(ss, ", ")
}

func runReplayTest(repo, src string) (string, bool) {
	dir, err := os.MkdirTemp("", "gvc-replay-")
	if err != nil {
		return err.Error(), false
	}
	defer os.RemoveAll(dir)
	tf := filepath.Join(dir, "zz_gvc_replay_test.go")
	os.WriteFile(tf, []byte(src), 0o644)
	ov := map[string]map[string]string{"Replace": {filepath.Join(repo, "zz_gvc_replay_test.go"): tf}}
	data, _ := json.Marshal(ov)
	ovf := filepath.Join(dir, "overlay.json")
	os.WriteFile(ovf, data, 0o644)
	ctx, cancel := context.WithTimeout(context.Background(), 180*time.Second)
	defer cancel()
	cmd := exec.CommandContext(ctx, "go", "test", "-overlay", ovf, "-vet=off", "-v", "-timeout", "60s", "-count=1", "-run", "^TestGvcReplay$", ".")
	cmd.Dir = repo
	cmd.Env = childEnv()
	var out bytes.Buffer
	cmd.Stdout = &out
	cmd.Stderr = &out
	_ = cmd.Run()
	s := out.String()
	return s, strings.Contains(s, "GVC-REPLAY CONFIRMED")
}

// replayOracles: executable forms of postconditions (Go statements that `return "reason"` when the
// postcondition is violated; results are r0, r1, ...; inputs are gvc_<param>). Written from the
// property statements, used only to confirm counterexamples, never to prove anything.
var replayOracles = map[string]string{
	"Unpack": `			fc, fcsz, err := r0, r1, r2
			if err != nil {
				if fc != nil || fcsz != 0 { return "error with non-nil result" }
				return ""
			}
			if fc == nil { return "nil Fcall without error" }
			if len(gvc_buf) < 7 { return "accepted a buffer shorter than a header" }
			sz := int(gvc_buf[0]) | int(gvc_buf[1])<<8 | int(gvc_buf[2])<<16 | int(gvc_buf[3])<<24
			if fcsz != sz || fcsz < 7 || fcsz > len(gvc_buf) { return gvcfmt.Sprint("consumed ", fcsz, " but size prefix is ", sz) }
			if fc.Type < 100 || fc.Type > 127 || fc.Type == 106 { return gvcfmt.Sprint("undefined type ", fc.Type) }
			if fc.Type != gvc_buf[4] || fc.Tag != uint16(gvc_buf[5])|uint16(gvc_buf[6])<<8 || int(fc.Size) != sz { return "header fields differ from the bytes" }
			if len(fc.Pkt) != sz { return "Pkt is not the packet" }
			if (fc.Type == 117 || fc.Type == 118) && int(fc.Count) != len(fc.Data) { return "count differs from data length" }
`,
	"UnpackDir": `			d, b, amt, err := r0, r1, r2, r3
			if err != nil {
				if d != nil || b != nil || amt != 0 { return "error with non-zero result" }
				return ""
			}
			if d == nil || amt < 0 || amt > len(gvc_buf) || len(b) != len(gvc_buf)-amt { return "inconsistent result" }
`,
}

// cmdReplay re-runs the Go test stored in a replay file.
func cmdReplay(args []string) {
	fs := flag.NewFlagSet("replay", flag.ExitOnError)
	file := fs.String("file", "", "replay file")
	repo := fs.String("repo", "/repo", "repository")
	fs.Parse(args)
	data, err := os.ReadFile(*file)
	if err != nil {
		fmt.Fprintln(os.Stderr, err)
		os.Exit(2)
	}
	var rf map[string]interface{}
	if err := json.Unmarshal(data, &rf); err != nil {
		fmt.Fprintln(os.Stderr, err)
		os.Exit(2)
	}
	fmt.Printf("obligation: %v\nresult: %v (%v)\n", rf["obligation"], rf["result"], rf["solver"])
	src, _ := rf["replay_test"].(string)
	if src == "" {
		fmt.Println("no replayable input was found for this obligation (no-failing-input-found); solver output follows")
		fmt.Println(rf["solver_output"])
		os.Exit(1)
	}
	out, confirmed := runReplayTest(*repo, src)
	fmt.Println(out)
	if confirmed {
		fmt.Println("violation reproduced on the real code")
		os.Exit(1)
	}
	fmt.Println("not reproduced on the current tree")
	os.Exit(0)
}

var _ = regexp.MustCompile
