package main

// Replay of solver counterexamples against the real code (go test -overlay).

type Replay struct {
	Source    string
	Output    string
	Confirmed bool
	Inputs    map[string]interface{}
}

func (o *Obligation) replayConfirmed() bool { return o.Replay != nil && o.Replay.Confirmed }

func tryReplay(e *Engine, root, prop string, o *Obligation) {}
