package main

import (
	"fmt"
	"go/types"
	"math/big"
	"strings"
)

// ---------------------------------------------------------------------------
// SMT term helpers. Terms are plain S-expression strings.

func sx(op string, args ...string) string {
	return "(" + op + " " + strings.Join(args, " ") + ")"
}

func and(args ...string) string {
	var xs []string
	for _, a := range args {
		if a == "true" {
			continue
		}
		if a == "false" {
			return "false"
		}
		xs = append(xs, a)
	}
	switch len(xs) {
	case 0:
		return "true"
	case 1:
		return xs[0]
	}
	return sx("and", xs...)
}

func or(args ...string) string {
	var xs []string
	for _, a := range args {
		if a == "false" {
			continue
		}
		if a == "true" {
			return "true"
		}
		xs = append(xs, a)
	}
	switch len(xs) {
	case 0:
		return "false"
	case 1:
		return xs[0]
	}
	return sx("or", xs...)
}

func not(a string) string {
	if a == "true" {
		return "false"
	}
	if a == "false" {
		return "true"
	}
	if strings.HasPrefix(a, "(not ") {
		return a[5 : len(a)-1]
	}
	return sx("not", a)
}

func implies(a, b string) string {
	if a == "true" {
		return b
	}
	if a == "false" || b == "true" {
		return "true"
	}
	return sx("=>", a, b)
}

func eq(a, b string) string {
	if a == b {
		return "true"
	}
	return sx("=", a, b)
}

func ite(c, a, b string) string {
	if c == "true" {
		return a
	}
	if c == "false" {
		return b
	}
	if a == b {
		return a
	}
	return sx("ite", c, a, b)
}

func num(n int64) string {
	if n < 0 {
		return fmt.Sprintf("(- %d)", -n)
	}
	return fmt.Sprintf("%d", n)
}

func bignum(n *big.Int) string {
	if n.Sign() < 0 {
		return "(- " + new(big.Int).Neg(n).String() + ")"
	}
	return n.String()
}

func pow2(k uint) *big.Int { return new(big.Int).Lsh(big.NewInt(1), k) }

func add(a, b string) string {
	if a == "0" {
		return b
	}
	if b == "0" {
		return a
	}
	// a + (x - a) == x  (used by the absolute-index form of quantifiers)
	if strings.HasPrefix(b, "(- ") && strings.HasSuffix(b, " "+a+")") {
		x := b[3 : len(b)-len(a)-2]
		if balanced(x) {
			return x
		}
	}
	if strings.HasPrefix(a, "(- ") && strings.HasSuffix(a, " "+b+")") {
		x := a[3 : len(a)-len(b)-2]
		if balanced(x) {
			return x
		}
	}
	return sx("+", a, b)
}

func balanced(x string) bool {
	d := 0
	for i := 0; i < len(x); i++ {
		switch x[i] {
		case '(':
			d++
		case ')':
			d--
			if d < 0 {
				return false
			}
		case ' ':
			if d == 0 {
				return false
			}
		}
	}
	return d == 0
}

func sub(a, b string) string {
	if b == "0" {
		return a
	}
	return sx("-", a, b)
}

func sel(a, i string) string      { return sx("select", a, i) }
func store(a, i, v string) string { return sx("store", a, i, v) }
func sel2(a, i, j string) string  { return sel(sel(a, i), j) }

func qsym(s string) string {
	// quoted symbol when needed
	for _, c := range s {
		if !(c >= 'a' && c <= 'z' || c >= 'A' && c <= 'Z' || c >= '0' && c <= '9' || c == '_' || c == '!' || c == '.' || c == '@' || c == '$') {
			return "|" + strings.ReplaceAll(s, "|", "_") + "|"
		}
	}
	if s == "" || (s[0] >= '0' && s[0] <= '9') {
		return "|" + s + "|"
	}
	return s
}

// ---------------------------------------------------------------------------
// Sorts

const (
	sInt   = "Int"
	sBool  = "Bool"
	sSlice = "Slice"
	sIface = "Iface"
)

// sortOf returns the SMT sort of a Go type that fits in a single cell, or ""
// for aggregate types (struct, array, tuple) which are flattened.
func sortOf(t types.Type) string {
	switch u := t.Underlying().(type) {
	case *types.Basic:
		if u.Info()&types.IsBoolean != 0 {
			return sBool
		}
		if u.Info()&types.IsFloat != 0 || u.Info()&types.IsComplex != 0 {
			return sInt // floats are abstracted to opaque ints
		}
		return sInt
	case *types.Pointer, *types.Map, *types.Chan, *types.Signature:
		return sInt
	case *types.Slice:
		return sSlice
	case *types.Interface:
		return sIface
	case *types.Struct, *types.Array, *types.Tuple:
		return ""
	}
	return sInt
}

func zeroOf(sort string) string {
	switch sort {
	case sBool:
		return "false"
	case sSlice:
		return "(mk-slice 0 0 0 0)"
	case sIface:
		return "(mk-iface 0 0)"
	}
	return "0"
}

func arrSort(elem string) string  { return "(Array Int " + elem + ")" }
func arr2Sort(elem string) string { return "(Array Int (Array Int " + elem + "))" }

// integer ranges ------------------------------------------------------------

type intKind struct {
	bits   uint
	signed bool
}

func intKindOf(t types.Type) (intKind, bool) {
	b, ok := t.Underlying().(*types.Basic)
	if !ok || b.Info()&types.IsInteger == 0 {
		return intKind{}, false
	}
	switch b.Kind() {
	case types.Int8:
		return intKind{8, true}, true
	case types.Int16:
		return intKind{16, true}, true
	case types.Int32:
		return intKind{32, true}, true
	case types.Int64, types.Int, types.UntypedInt, types.UntypedRune:
		return intKind{64, true}, true
	case types.Uint8:
		return intKind{8, false}, true
	case types.Uint16:
		return intKind{16, false}, true
	case types.Uint32:
		return intKind{32, false}, true
	case types.Uint64, types.Uint, types.Uintptr:
		return intKind{64, false}, true
	}
	return intKind{}, false
}

func (k intKind) min() *big.Int {
	if !k.signed {
		return big.NewInt(0)
	}
	return new(big.Int).Neg(pow2(k.bits - 1))
}

func (k intKind) max() *big.Int {
	if !k.signed {
		return new(big.Int).Sub(pow2(k.bits), big.NewInt(1))
	}
	return new(big.Int).Sub(pow2(k.bits-1), big.NewInt(1))
}

func (k intKind) inRange(t string) string {
	return and(sx("<=", bignum(k.min()), t), sx("<=", t, bignum(k.max())))
}

// wrap reduces an unbounded integer term to the machine representation.
func (k intKind) wrap(t string) string {
	m := bignum(pow2(k.bits))
	if !k.signed {
		return ite(k.inRange(t), t, sx("mod", t, m))
	}
	h := bignum(pow2(k.bits - 1))
	return ite(k.inRange(t), t, sx("-", sx("mod", sx("+", t, h), m), h))
}

// andMask computes x & mask for a constant non-negative mask, as arithmetic
// on the two's complement bit pattern (floor div / euclidean mod).
func andMask(x string, mask *big.Int) string {
	if mask.Sign() == 0 {
		return "0"
	}
	var parts []string
	n := mask.BitLen()
	i := 0
	for i < n {
		if mask.Bit(i) == 0 {
			i++
			continue
		}
		j := i
		for j < n && mask.Bit(j) == 1 {
			j++
		}
		// run of ones [i,j)
		var t string
		if i == 0 {
			t = sx("mod", x, bignum(pow2(uint(j))))
		} else {
			t = sx("*", sx("mod", sx("div", x, bignum(pow2(uint(i)))), bignum(pow2(uint(j-i)))), bignum(pow2(uint(i))))
		}
		parts = append(parts, t)
		i = j
	}
	if len(parts) == 1 {
		return parts[0]
	}
	return sx("+", parts...)
}

const prelude = `(declare-datatypes ((Slice 0)) (((mk-slice (s-obj Int) (s-off Int) (s-len Int) (s-cap Int)))))
(declare-datatypes ((Iface 0)) (((mk-iface (i-tag Int) (i-val Int)))))
(declare-fun slen (Int) Int)
(declare-fun sbyte (Int Int) Int)
(declare-fun allocid (Int) Int)
(declare-fun kind (Int) Int)
(declare-fun born (Int) Int)
(declare-fun bor (Int Int) Int)
(declare-fun band (Int Int) Int)
(declare-fun bxor (Int Int) Int)
(declare-fun implements (Int Int) Bool)
(declare-fun maplen (Int) Int)
(declare-fun strcat (Int Int) Int)
(assert (forall ((a Int) (b Int)) (! (= (slen (strcat a b)) (+ (slen a) (slen b))) :pattern ((strcat a b)))))
(assert (forall ((a Int) (b Int) (k Int)) (! (=> (and (<= 0 k) (< k (slen a))) (= (sbyte (strcat a b) k) (sbyte a k))) :pattern ((sbyte (strcat a b) k)))))
(assert (forall ((a Int) (b Int) (k Int)) (! (=> (and (<= (slen a) k) (< k (+ (slen a) (slen b)))) (= (sbyte (strcat a b) k) (sbyte b (- k (slen a))))) :pattern ((sbyte (strcat a b) k)))))
(assert (forall ((s Int)) (! (and (>= (slen s) 0) (<= (slen s) 9223372036854775807)) :pattern ((slen s)))))
(assert (forall ((s Int)) (! (=> (= (slen s) 0) (= s 0)) :pattern ((slen s)))))
(assert (= (slen 0) 0))
(assert (forall ((s Int) (k Int)) (! (and (<= 0 (sbyte s k)) (< (sbyte s k) 256)) :pattern ((sbyte s k)))))
`
