package main

import (
	"bufio"
	"fmt"
	"math/big"
	"os"
	"regexp"
	"strconv"
	"strings"
)

// ---------------------------------------------------------------------------
// Contract file model

type Clause struct {
	Kind  string // requires, ensures, invariant, decreases, assert
	Text  string
	E     *Expr
	Props []string // property ids this clause serves (nil = function-level set)
	Line  int
	Label string   // optional label: `ensures [name] expr`
	Uses  []string // lemmas assumed only for this clause's obligations: `[uses=lemma]`
}

type LoopContract struct {
	Ordinal    int
	Invariants []*Clause
	Decreases  *Clause
	Line       int
}

type Anchor struct {
	Kind    string // call, send, store, lock, unlock, return, go
	Pattern string
	Ordinal int // 0 = all matches
}

type AtClause struct {
	Anchor Anchor
	Kind   string // requires (assert before), ghost (assignment before), after (ghost assignment after), assume
	Ghost  string
	Cl     *Clause
}

type GhostVar struct {
	Name string
	Sort string
	Init *Expr
}

type FuncContract struct {
	Name       string // qualified name as printed by ssa.Function.String() minus package path, e.g. pstr, (*Srv).write
	Params     []string
	Results    []string
	Props      []string
	Requires   []*Clause
	Ensures    []*Clause
	Assigns    []*Expr // nil = not specified (default: everything)
	HasAssigns bool
	Loops      map[int]*LoopContract
	Ats        []*AtClause
	Ghosts     []*GhostVar
	Extern     bool // body not verified (dependency): assumed
	Iface      bool
	Trusted    string
	Inline     bool
	NoBody     bool
	Line       int
	Opts       map[string]string
}

type Macro struct {
	Name   string
	Params []string
	Body   *Expr
}

type RecFunc struct {
	Name   string
	Params []string // each "name sort"
	PSorts []string
	Ret    string
	Axioms []*Clause
}

type Lemma struct {
	Name    string
	Vars    []QVar
	Hyps    []*Clause
	Concl   []*Clause
	Props   []string
	Induct  string // variable for induction (int, base 0) or ""
	Uses    []string
	Trigger []*Expr
}

type FieldClass struct {
	Type, Field string
	Class       string // guarded, owned, immutable, atomic
	By          string // guard path, e.g. "Conn" meaning the Mutex embedded in the Conn object holding the field; or expr
}

type Contracts struct {
	Funcs   map[string]*FuncContract
	Order   []string
	Macros  map[string]*Macro
	Recs    map[string]*RecFunc
	Lemmas  []*Lemma
	Fields  []*FieldClass
	Consts  map[string]string
	Facts   []*Clause
	File    string
	NClause int
}

var clauseKeywords = map[string]bool{
	"func": true, "extern": true, "iface": true, "pure": true, "rec": true, "axiom": true, "property": true,
	"requires": true, "ensures": true, "assigns": true, "loop": true, "invariant": true, "decreases": true,
	"at": true, "ghost": true, "inline": true, "trusted": true, "lemma": true, "hyp": true, "concl": true,
	"guarded": true, "owned": true, "immutable": true, "atomic": true, "opt": true, "uses": true, "induction": true, "nobody": true, "trigger": true, "fact": true,
}

func ParseContracts(paths ...string) (*Contracts, error) {
	cs := &Contracts{Funcs: map[string]*FuncContract{}, Macros: map[string]*Macro{}, Recs: map[string]*RecFunc{}, Consts: map[string]string{}}
	for _, path := range paths {
		if err := cs.parseFile(path); err != nil {
			return nil, err
		}
	}
	return cs, nil
}

type rawLine struct {
	text string
	line int
	file string
}

func (cs *Contracts) parseFile(path string) error {
	f, err := os.Open(path)
	if err != nil {
		return err
	}
	defer f.Close()
	var lines []rawLine
	sc := bufio.NewScanner(f)
	sc.Buffer(make([]byte, 1<<20), 1<<20)
	ln := 0
	for sc.Scan() {
		ln++
		t := sc.Text()
		tt := strings.TrimSpace(t)
		if !strings.HasPrefix(tt, "//@") {
			continue
		}
		body := strings.TrimSpace(tt[3:])
		if body == "" {
			continue
		}
		// strip trailing comments introduced by " //"
		if i := strings.Index(body, " // "); i >= 0 {
			body = strings.TrimSpace(body[:i])
		}
		if strings.HasPrefix(body, "// ") || body == "//" || strings.HasPrefix(body, "#") {
			continue
		}
		first := body
		if i := strings.IndexAny(body, " \t("); i >= 0 {
			first = body[:i]
		}
		if clauseKeywords[first] || len(lines) == 0 {
			lines = append(lines, rawLine{body, ln, path})
		} else {
			lines[len(lines)-1].text += " " + body
		}
	}
	var cur *FuncContract
	var curLoop *LoopContract
	var curRec *RecFunc
	var curLemma *Lemma
	var curProps []string // clause-level override
	for _, rl := range lines {
		kw, rest := splitKw(rl.text)
		fail := func(msg string, a ...interface{}) error {
			return fmt.Errorf("%s:%d: %s (in %q)", rl.file, rl.line, fmt.Sprintf(msg, a...), rl.text)
		}
		mkClause := func(kind, text string) (*Clause, error) {
			c := &Clause{Kind: kind, Line: rl.line}
			text = strings.TrimSpace(text)
			if strings.HasPrefix(text, "[") {
				j := strings.Index(text, "]")
				if j > 0 {
					inside := text[1:j]
					text = strings.TrimSpace(text[j+1:])
					for _, w := range strings.Fields(inside) {
						if regexp.MustCompile(`^C[0-9]+$`).MatchString(w) {
							c.Props = append(c.Props, w)
						} else if strings.HasPrefix(w, "uses=") {
							c.Uses = append(c.Uses, strings.Split(w[5:], ",")...)
						} else {
							c.Label = w
						}
					}
				}
			}
			if c.Props == nil && curProps != nil {
				c.Props = curProps
			}
			c.Text = text
			e, err := ParseExpr(text)
			if err != nil {
				return nil, fail("expression: %v", err)
			}
			c.E = e
			cs.NClause++
			return c, nil
		}
		switch kw {
		case "func", "extern", "iface":
			name, params, results, err := parseSig(rest)
			if err != nil {
				return fail("%v", err)
			}
			cur = &FuncContract{Name: name, Params: params, Results: results, Loops: map[int]*LoopContract{}, Line: rl.line, Opts: map[string]string{}}
			cur.Extern = kw == "extern"
			cur.Iface = kw == "iface"
			if _, dup := cs.Funcs[name]; dup {
				return fail("duplicate contract for %s", name)
			}
			cs.Funcs[name] = cur
			cs.Order = append(cs.Order, name)
			curLoop, curRec, curLemma, curProps = nil, nil, nil, nil
		case "pure":
			// pure name(a, b) = expr
			i := strings.Index(rest, "=")
			if i < 0 {
				return fail("pure needs '='")
			}
			name, params, _, err := parseSig(strings.TrimSpace(rest[:i]))
			if err != nil {
				return fail("%v", err)
			}
			e, err := ParseExpr(strings.TrimSpace(rest[i+1:]))
			if err != nil {
				return fail("expression: %v", err)
			}
			cs.Macros[name] = &Macro{Name: name, Params: params, Body: e}
			cur, curLoop, curRec, curLemma = nil, nil, nil, nil
		case "rec":
			// rec name(a Int, b Slice) Int
			i := strings.Index(rest, "(")
			j := strings.LastIndex(rest, ")")
			if i < 0 || j < i {
				return fail("bad rec")
			}
			r := &RecFunc{Name: strings.TrimSpace(rest[:i]), Ret: strings.TrimSpace(rest[j+1:])}
			for _, p := range splitTop(rest[i+1:j], ',') {
				fs := strings.Fields(p)
				if len(fs) != 2 {
					return fail("rec param needs 'name Sort'")
				}
				r.Params = append(r.Params, fs[0])
				r.PSorts = append(r.PSorts, fs[1])
			}
			cs.Recs[r.Name] = r
			curRec = r
			cur, curLoop, curLemma = nil, nil, nil
		case "axiom":
			if curRec == nil {
				return fail("axiom outside rec")
			}
			c, err := mkClause("axiom", rest)
			if err != nil {
				return err
			}
			curRec.Axioms = append(curRec.Axioms, c)
		case "lemma":
			// lemma name(x int, y int)
			i := strings.Index(rest, "(")
			j := strings.LastIndex(rest, ")")
			if i < 0 || j < i {
				return fail("bad lemma")
			}
			l := &Lemma{Name: strings.TrimSpace(rest[:i])}
			for _, p := range splitTop(rest[i+1:j], ',') {
				fs := strings.Fields(p)
				if len(fs) != 2 {
					return fail("lemma param needs 'name sort'")
				}
				l.Vars = append(l.Vars, QVar{fs[0], fs[1]})
			}
			cs.Lemmas = append(cs.Lemmas, l)
			curLemma = l
			cur, curLoop, curRec = nil, nil, nil
		case "hyp", "concl":
			if curLemma == nil {
				return fail("%s outside lemma", kw)
			}
			c, err := mkClause(kw, rest)
			if err != nil {
				return err
			}
			if kw == "hyp" {
				curLemma.Hyps = append(curLemma.Hyps, c)
			} else {
				curLemma.Concl = append(curLemma.Concl, c)
			}
		case "trigger":
			if curLemma == nil {
				return fail("trigger outside lemma")
			}
			for _, p := range splitTop(rest, ',') {
				ex, err := ParseExpr(strings.TrimSpace(p))
				if err != nil {
					return fail("trigger: %v", err)
				}
				curLemma.Trigger = append(curLemma.Trigger, ex)
			}
		case "induction":
			if curLemma == nil {
				return fail("induction outside lemma")
			}
			curLemma.Induct = strings.TrimSpace(rest)
		case "uses":
			if curLemma != nil {
				curLemma.Uses = append(curLemma.Uses, strings.Fields(rest)...)
			} else if cur != nil {
				cur.Opts["uses"] += " " + rest
			}
		case "property":
			ids := strings.Fields(rest)
			if curLemma != nil {
				curLemma.Props = ids
			} else if cur != nil {
				if len(cur.Requires)+len(cur.Ensures)+len(cur.Ats) == 0 && cur.Props == nil {
					cur.Props = ids
				} else {
					curProps = ids
				}
			} else {
				return fail("property outside func")
			}
		case "requires", "ensures":
			if cur == nil {
				return fail("%s outside func", kw)
			}
			c, err := mkClause(kw, rest)
			if err != nil {
				return err
			}
			if kw == "requires" {
				cur.Requires = append(cur.Requires, c)
			} else {
				cur.Ensures = append(cur.Ensures, c)
			}
			curLoop = nil
		case "assigns":
			if cur == nil {
				return fail("assigns outside func")
			}
			cur.HasAssigns = true
			if strings.TrimSpace(rest) != "nothing" {
				for _, p := range splitTop(rest, ',') {
					e, err := ParseExpr(strings.TrimSpace(p))
					if err != nil {
						return fail("assigns: %v", err)
					}
					cur.Assigns = append(cur.Assigns, e)
				}
			}
		case "loop":
			if cur == nil {
				return fail("loop outside func")
			}
			n, err := strconv.Atoi(strings.TrimSpace(rest))
			if err != nil {
				return fail("loop ordinal")
			}
			curLoop = &LoopContract{Ordinal: n, Line: rl.line}
			cur.Loops[n] = curLoop
		case "invariant":
			if curLoop == nil {
				return fail("invariant outside loop")
			}
			c, err := mkClause("invariant", rest)
			if err != nil {
				return err
			}
			curLoop.Invariants = append(curLoop.Invariants, c)
		case "decreases":
			if curLoop == nil {
				return fail("decreases outside loop")
			}
			c, err := mkClause("decreases", rest)
			if err != nil {
				return err
			}
			curLoop.Decreases = c
		case "ghost":
			if cur == nil {
				return fail("ghost outside func")
			}
			// ghost name Sort = init
			i := strings.Index(rest, "=")
			if i < 0 {
				return fail("ghost needs '= init'")
			}
			fs := strings.Fields(rest[:i])
			if len(fs) != 2 {
				return fail("ghost name Sort = init")
			}
			e, err := ParseExpr(strings.TrimSpace(rest[i+1:]))
			if err != nil {
				return fail("ghost init: %v", err)
			}
			cur.Ghosts = append(cur.Ghosts, &GhostVar{Name: fs[0], Sort: fs[1], Init: e})
		case "at":
			if cur == nil {
				return fail("at outside func")
			}
			// at call(pattern)#n requires expr | at call(p) ghost name := expr | at call(p) after name := expr
			m := regexp.MustCompile(`^(\w+)\(([^)]*(?:\([^)]*\)[^)]*)*)\)(?:#(\d+))?\s+(requires|assume|ensures|ghost|after)\s+(.*)$`).FindStringSubmatch(rest)
			if m == nil {
				return fail("bad at clause")
			}
			ac := &AtClause{Anchor: Anchor{Kind: m[1], Pattern: strings.TrimSpace(m[2])}, Kind: m[4]}
			if m[3] != "" {
				ac.Anchor.Ordinal, _ = strconv.Atoi(m[3])
			}
			body := m[5]
			if ac.Kind == "ghost" || ac.Kind == "after" {
				i := strings.Index(body, ":=")
				if i < 0 {
					return fail("ghost assignment needs :=")
				}
				ac.Ghost = strings.TrimSpace(body[:i])
				body = body[i+2:]
			}
			c, err := mkClause(ac.Kind, body)
			if err != nil {
				return err
			}
			ac.Cl = c
			cur.Ats = append(cur.Ats, ac)
			curLoop = nil
		case "inline":
			if cur != nil {
				cur.Inline = true
			}
		case "nobody":
			if cur != nil {
				cur.NoBody = true
			}
		case "trusted":
			if cur != nil {
				cur.Trusted = strings.TrimSpace(rest)
				if cur.Trusted == "" {
					cur.Trusted = "trusted"
				}
			}
		case "opt":
			if cur != nil {
				fs := strings.SplitN(strings.TrimSpace(rest), " ", 2)
				v := "1"
				if len(fs) == 2 {
					v = fs[1]
				}
				cur.Opts[fs[0]] = v
			}
		case "fact":
			c, err := mkClause("fact", rest)
			if err != nil {
				return err
			}
			cs.Facts = append(cs.Facts, c)
			cur, curLoop, curRec, curLemma = nil, nil, nil, nil
		case "guarded", "owned", "immutable", "atomic":
			// guarded Conn.fidpool,reqs by Conn   |  owned SrvFid.opened by request
			fs := strings.Fields(rest)
			if len(fs) < 1 {
				return fail("bad field class")
			}
			tf := strings.SplitN(fs[0], ".", 2)
			if len(tf) != 2 {
				return fail("Type.field expected")
			}
			by := ""
			if len(fs) >= 3 && fs[1] == "by" {
				by = strings.Join(fs[2:], " ")
			}
			for _, fld := range strings.Split(tf[1], ",") {
				cs.Fields = append(cs.Fields, &FieldClass{Type: tf[0], Field: fld, Class: kw, By: by})
			}
		default:
			return fail("unknown keyword %q", kw)
		}
	}
	return nil
}

func splitKw(s string) (string, string) {
	i := strings.IndexAny(s, " \t")
	if i < 0 {
		return s, ""
	}
	return s[:i], strings.TrimSpace(s[i+1:])
}

// parseSig parses `name(a, b) (r1, r2)`; name may be `(*T).m`
func parseSig(s string) (string, []string, []string, error) {
	s = strings.TrimSpace(s)
	// find the '(' that starts the parameter list: skip a leading receiver "(*T)."
	start := 0
	if strings.HasPrefix(s, "(") {
		j := strings.Index(s, ").")
		if j < 0 {
			return "", nil, nil, fmt.Errorf("bad signature")
		}
		start = j + 2
	}
	i := strings.Index(s[start:], "(")
	if i < 0 {
		return strings.TrimSpace(s), nil, nil, nil
	}
	i += start
	name := strings.TrimSpace(s[:i])
	j := matchParen(s, i)
	if j < 0 {
		return "", nil, nil, fmt.Errorf("unbalanced parens")
	}
	params := fieldsList(s[i+1 : j])
	rest := strings.TrimSpace(s[j+1:])
	var results []string
	if strings.HasPrefix(rest, "(") {
		k := matchParen(rest, 0)
		if k < 0 {
			return "", nil, nil, fmt.Errorf("unbalanced parens")
		}
		results = fieldsList(rest[1:k])
	}
	return name, params, results, nil
}

func fieldsList(s string) []string {
	var out []string
	for _, p := range strings.Split(s, ",") {
		p = strings.TrimSpace(p)
		if p != "" {
			out = append(out, p)
		}
	}
	return out
}

func matchParen(s string, i int) int {
	d := 0
	for k := i; k < len(s); k++ {
		switch s[k] {
		case '(':
			d++
		case ')':
			d--
			if d == 0 {
				return k
			}
		}
	}
	return -1
}

func splitTop(s string, sep byte) []string {
	var out []string
	d := 0
	last := 0
	for i := 0; i < len(s); i++ {
		switch s[i] {
		case '(', '[', '{':
			d++
		case ')', ']', '}':
			d--
		default:
			if s[i] == sep && d == 0 {
				out = append(out, s[last:i])
				last = i + 1
			}
		}
	}
	if strings.TrimSpace(s[last:]) != "" {
		out = append(out, s[last:])
	}
	return out
}

// ---------------------------------------------------------------------------
// Expression AST and parser

type QVar struct{ Name, Sort string }

type Expr struct {
	Op   string // ident num str nil true false call sel index slice not neg bin forall exists
	Name string // ident name, field name, binary operator, callee name
	Num  *big.Int
	Str  string
	Args []*Expr
	Vars []QVar
	Trig [][]*Expr
}

func (e *Expr) String() string {
	switch e.Op {
	case "ident":
		return e.Name
	case "num":
		return e.Num.String()
	case "str":
		return strconv.Quote(e.Str)
	case "nil", "true", "false":
		return e.Op
	case "call":
		var as []string
		for _, a := range e.Args {
			as = append(as, a.String())
		}
		return e.Name + "(" + strings.Join(as, ", ") + ")"
	case "sel":
		return e.Args[0].String() + "." + e.Name
	case "index":
		return e.Args[0].String() + "[" + e.Args[1].String() + "]"
	case "slice":
		lo, hi := "", ""
		if e.Args[1] != nil {
			lo = e.Args[1].String()
		}
		if e.Args[2] != nil {
			hi = e.Args[2].String()
		}
		return e.Args[0].String() + "[" + lo + ":" + hi + "]"
	case "not":
		return "!" + e.Args[0].String()
	case "neg":
		return "-" + e.Args[0].String()
	case "bin":
		return "(" + e.Args[0].String() + " " + e.Name + " " + e.Args[1].String() + ")"
	case "forall", "exists":
		var vs []string
		for _, v := range e.Vars {
			vs = append(vs, v.Name+" "+v.Sort)
		}
		return e.Op + " " + strings.Join(vs, ", ") + " :: " + e.Args[0].String()
	}
	return "?"
}

type tok struct {
	k string // id num str op eof
	s string
}

type lexer struct {
	toks []tok
	pos  int
}

func lex(s string) ([]tok, error) {
	var out []tok
	i := 0
	for i < len(s) {
		c := s[i]
		switch {
		case c == ' ' || c == '\t':
			i++
		case c >= '0' && c <= '9':
			j := i
			if c == '0' && j+1 < len(s) && (s[j+1] == 'x' || s[j+1] == 'X') {
				j += 2
				for j < len(s) && (isHex(s[j])) {
					j++
				}
			} else {
				for j < len(s) && s[j] >= '0' && s[j] <= '9' {
					j++
				}
			}
			out = append(out, tok{"num", s[i:j]})
			i = j
		case c == '_' || c >= 'a' && c <= 'z' || c >= 'A' && c <= 'Z':
			j := i
			for j < len(s) && (s[j] == '_' || s[j] >= 'a' && s[j] <= 'z' || s[j] >= 'A' && s[j] <= 'Z' || s[j] >= '0' && s[j] <= '9') {
				j++
			}
			out = append(out, tok{"id", s[i:j]})
			i = j
		case c == '"':
			j := i + 1
			for j < len(s) && s[j] != '"' {
				if s[j] == '\\' {
					j++
				}
				j++
			}
			if j >= len(s) {
				return nil, fmt.Errorf("unterminated string")
			}
			v, err := strconv.Unquote(s[i : j+1])
			if err != nil {
				return nil, err
			}
			out = append(out, tok{"str", v})
			i = j + 1
		case c == '\'':
			if i+2 < len(s) && s[i+2] == '\'' {
				out = append(out, tok{"num", strconv.Itoa(int(s[i+1]))})
				i += 3
			} else {
				return nil, fmt.Errorf("bad char literal")
			}
		default:
			ops := []string{"<==>", "==>", "::", "&&", "||", "==", "!=", "<=", ">=", "<<", ">>", "&^", ":=", "+", "-", "*", "/", "%", "<", ">", "!", "(", ")", "[", "]", ",", ":", ".", "&", "|", "{", "}", "^"}
			matched := false
			for _, op := range ops {
				if strings.HasPrefix(s[i:], op) {
					out = append(out, tok{"op", op})
					i += len(op)
					matched = true
					break
				}
			}
			if !matched {
				return nil, fmt.Errorf("unexpected character %q", c)
			}
		}
	}
	out = append(out, tok{"eof", ""})
	return out, nil
}

func isHex(c byte) bool {
	return c >= '0' && c <= '9' || c >= 'a' && c <= 'f' || c >= 'A' && c <= 'F'
}

func ParseExpr(s string) (*Expr, error) {
	toks, err := lex(s)
	if err != nil {
		return nil, err
	}
	lx := &lexer{toks: toks}
	e, err := lx.parseImplies()
	if err != nil {
		return nil, err
	}
	if lx.peek().k != "eof" {
		return nil, fmt.Errorf("trailing tokens at %q", lx.peek().s)
	}
	return e, nil
}

func (l *lexer) peek() tok { return l.toks[l.pos] }
func (l *lexer) next() tok { t := l.toks[l.pos]; l.pos++; return t }
func (l *lexer) isOp(s string) bool {
	t := l.peek()
	return t.k == "op" && t.s == s
}
func (l *lexer) expect(s string) error {
	if !l.isOp(s) {
		return fmt.Errorf("expected %q, got %q", s, l.peek().s)
	}
	l.pos++
	return nil
}

// precedence: <==> < ==> < || < && < comparison < + - | ^ < * / % << >> & &^ < unary
func (l *lexer) parseImplies() (*Expr, error) {
	if t := l.peek(); t.k == "id" && (t.s == "forall" || t.s == "exists") {
		return l.parseQuant()
	}
	lhs, err := l.parseOr()
	if err != nil {
		return nil, err
	}
	if l.isOp("==>") {
		l.next()
		rhs, err := l.parseImplies()
		if err != nil {
			return nil, err
		}
		return &Expr{Op: "bin", Name: "==>", Args: []*Expr{lhs, rhs}}, nil
	}
	if l.isOp("<==>") {
		l.next()
		rhs, err := l.parseImplies()
		if err != nil {
			return nil, err
		}
		return &Expr{Op: "bin", Name: "<==>", Args: []*Expr{lhs, rhs}}, nil
	}
	return lhs, nil
}

func (l *lexer) parseQuant() (*Expr, error) {
	q := l.next().s
	e := &Expr{Op: q}
	for {
		n := l.next()
		if n.k != "id" {
			return nil, fmt.Errorf("quantifier variable expected")
		}
		s := l.next()
		if s.k != "id" {
			return nil, fmt.Errorf("quantifier sort expected")
		}
		e.Vars = append(e.Vars, QVar{n.s, s.s})
		if l.isOp(",") {
			l.next()
			continue
		}
		break
	}
	for l.isOp("{") {
		l.next()
		var trig []*Expr
		for {
			t, err := l.parseOr()
			if err != nil {
				return nil, err
			}
			trig = append(trig, t)
			if l.isOp(",") {
				l.next()
				continue
			}
			break
		}
		if err := l.expect("}"); err != nil {
			return nil, err
		}
		e.Trig = append(e.Trig, trig)
	}
	if err := l.expect("::"); err != nil {
		return nil, err
	}
	body, err := l.parseImplies()
	if err != nil {
		return nil, err
	}
	e.Args = []*Expr{body}
	return e, nil
}

func (l *lexer) parseBinLevel(ops []string, sub func() (*Expr, error)) (*Expr, error) {
	lhs, err := sub()
	if err != nil {
		return nil, err
	}
	for {
		found := ""
		for _, op := range ops {
			if l.isOp(op) {
				found = op
				break
			}
		}
		if found == "" {
			return lhs, nil
		}
		l.next()
		rhs, err := sub()
		if err != nil {
			return nil, err
		}
		lhs = &Expr{Op: "bin", Name: found, Args: []*Expr{lhs, rhs}}
	}
}

func (l *lexer) parseOr() (*Expr, error) {
	return l.parseBinLevel([]string{"||"}, l.parseAnd)
}
func (l *lexer) parseAnd() (*Expr, error) {
	return l.parseBinLevel([]string{"&&"}, l.parseCmp)
}
func (l *lexer) parseCmp() (*Expr, error) {
	return l.parseBinLevel([]string{"==", "!=", "<=", ">=", "<", ">"}, l.parseAdd)
}
func (l *lexer) parseAdd() (*Expr, error) {
	return l.parseBinLevel([]string{"+", "-", "|", "^"}, l.parseMul)
}
func (l *lexer) parseMul() (*Expr, error) {
	return l.parseBinLevel([]string{"*", "/", "%", "<<", ">>", "&^", "&"}, l.parseUnary)
}

func (l *lexer) parseUnary() (*Expr, error) {
	if l.isOp("!") {
		l.next()
		x, err := l.parseUnary()
		if err != nil {
			return nil, err
		}
		return &Expr{Op: "not", Args: []*Expr{x}}, nil
	}
	if l.isOp("-") {
		l.next()
		x, err := l.parseUnary()
		if err != nil {
			return nil, err
		}
		return &Expr{Op: "neg", Args: []*Expr{x}}, nil
	}
	return l.parsePostfix()
}

func (l *lexer) parsePostfix() (*Expr, error) {
	var e *Expr
	t := l.next()
	switch t.k {
	case "num":
		n := new(big.Int)
		if _, ok := n.SetString(t.s, 0); !ok {
			return nil, fmt.Errorf("bad number %q", t.s)
		}
		e = &Expr{Op: "num", Num: n}
	case "str":
		e = &Expr{Op: "str", Str: t.s}
	case "id":
		switch t.s {
		case "nil", "true", "false":
			e = &Expr{Op: t.s}
		case "forall", "exists":
			l.pos--
			return l.parseQuant()
		default:
			e = &Expr{Op: "ident", Name: t.s}
		}
	case "op":
		if t.s == "(" {
			x, err := l.parseImplies()
			if err != nil {
				return nil, err
			}
			if err := l.expect(")"); err != nil {
				return nil, err
			}
			e = x
		} else {
			return nil, fmt.Errorf("unexpected %q", t.s)
		}
	default:
		return nil, fmt.Errorf("unexpected end of expression")
	}
	for {
		switch {
		case l.isOp("."):
			l.next()
			n := l.next()
			if n.k != "id" {
				return nil, fmt.Errorf("field name expected")
			}
			e = &Expr{Op: "sel", Name: n.s, Args: []*Expr{e}}
		case l.isOp("("):
			if e.Op != "ident" {
				return nil, fmt.Errorf("call of non-identifier")
			}
			l.next()
			call := &Expr{Op: "call", Name: e.Name}
			if !l.isOp(")") {
				for {
					a, err := l.parseImplies()
					if err != nil {
						return nil, err
					}
					call.Args = append(call.Args, a)
					if l.isOp(",") {
						l.next()
						continue
					}
					break
				}
			}
			if err := l.expect(")"); err != nil {
				return nil, err
			}
			e = call
		case l.isOp("["):
			l.next()
			var lo, hi *Expr
			var err error
			if !l.isOp(":") {
				lo, err = l.parseImplies()
				if err != nil {
					return nil, err
				}
			}
			if l.isOp(":") {
				l.next()
				if !l.isOp("]") {
					hi, err = l.parseImplies()
					if err != nil {
						return nil, err
					}
				}
				if err := l.expect("]"); err != nil {
					return nil, err
				}
				e = &Expr{Op: "slice", Args: []*Expr{e, lo, hi}}
			} else {
				if err := l.expect("]"); err != nil {
					return nil, err
				}
				e = &Expr{Op: "index", Args: []*Expr{e, lo}}
			}
		default:
			return e, nil
		}
	}
}
