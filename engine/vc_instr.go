package main

import (
	"fmt"
	"go/ast"
	"go/constant"
	"go/token"
	"go/types"
	"math/big"
	"sort"
	"strings"

	"golang.org/x/tools/go/ssa"
)

// ---------------------------------------------------------------------------
// Values

func (fc *FnCtx) freshVal(name string, t types.Type) Val {
	s := sortOf(t)
	if s != "" {
		v := scalar(fc.fresh(name, s), s, t)
		if b, ok := t.Underlying().(*types.Basic); ok && b.Info()&types.IsString != 0 {
			v.IsStr = true
		}
		return v
	}
	switch u := t.Underlying().(type) {
	case *types.Struct:
		v := Val{Typ: t}
		for i := 0; i < u.NumFields(); i++ {
			v.Fields = append(v.Fields, fc.freshVal(name+"."+u.Field(i).Name(), u.Field(i).Type()))
		}
		return v
	case *types.Tuple:
		v := Val{Typ: t}
		for i := 0; i < u.Len(); i++ {
			v.Fields = append(v.Fields, fc.freshVal(fmt.Sprintf("%s.%d", name, i), u.At(i).Type()))
		}
		return v
	case *types.Array:
		v := Val{Typ: t}
		n := int(u.Len())
		if n > 64 {
			n = 0
			fc.note("unsupported: large array value of type %s abstracted", t)
		}
		for i := 0; i < n; i++ {
			v.Fields = append(v.Fields, fc.freshVal(fmt.Sprintf("%s.%d", name, i), u.Elem()))
		}
		return v
	}
	return scalar(fc.fresh(name, sInt), sInt, t)
}

func (fc *FnCtx) zeroVal(t types.Type) Val {
	s := sortOf(t)
	if s != "" {
		v := scalar(zeroOf(s), s, t)
		if b, ok := t.Underlying().(*types.Basic); ok && b.Info()&types.IsString != 0 {
			v.IsStr = true
		}
		return v
	}
	switch u := t.Underlying().(type) {
	case *types.Struct:
		v := Val{Typ: t}
		for i := 0; i < u.NumFields(); i++ {
			v.Fields = append(v.Fields, fc.zeroVal(u.Field(i).Type()))
		}
		return v
	case *types.Array:
		v := Val{Typ: t}
		for i := 0; i < int(u.Len()) && i < 64; i++ {
			v.Fields = append(v.Fields, fc.zeroVal(u.Elem()))
		}
		return v
	}
	return scalar("0", sInt, t)
}

// typeFacts: range / well-formedness facts implied by the Go type of a value.
func (fc *FnCtx) typeFacts(v Val, t types.Type) string {
	if v.Sort == "" {
		var fs []string
		switch u := t.Underlying().(type) {
		case *types.Struct:
			for i := range v.Fields {
				if i < u.NumFields() {
					fs = append(fs, fc.typeFacts(v.Fields[i], u.Field(i).Type()))
				}
			}
		case *types.Tuple:
			for i := range v.Fields {
				if i < u.Len() {
					fs = append(fs, fc.typeFacts(v.Fields[i], u.At(i).Type()))
				}
			}
		case *types.Array:
			for i := range v.Fields {
				fs = append(fs, fc.typeFacts(v.Fields[i], u.Elem()))
			}
		}
		return and(fs...)
	}
	if k, ok := intKindOf(t); ok {
		return k.inRange(v.T)
	}
	switch v.Sort {
	case sSlice:
		return sliceWF(v.T)
	case sIface:
		return implies(eq(sx("i-tag", v.T), "0"), eq(sx("i-val", v.T), "0"))
	}
	return "true"
}

func sliceWF(s string) string {
	return and(sx("<=", "0", sx("s-off", s)), sx("<=", "0", sx("s-len", s)), sx("<=", sx("s-len", s), sx("s-cap", s)),
		sx("<=", sx("+", sx("s-off", s), sx("s-cap", s)), "9223372036854775807"),
		implies(eq(sx("s-obj", s), "0"), and(eq(sx("s-len", s), "0"), eq(sx("s-cap", s), "0"), eq(sx("s-off", s), "0"))))
}

// notAllocated: a reference obtained from outside (parameter, heap load, call result) is none of this
// function's unescaped allocations.
func (fc *FnCtx) notAllocated(v Val, t types.Type) string {
	var ref string
	switch t.Underlying().(type) {
	case *types.Pointer, *types.Map, *types.Chan:
		if v.Sort != sInt {
			return "true"
		}
		ref = v.T
	case *types.Slice:
		ref = sx("s-obj", v.T)
	case *types.Interface:
		ref = sx("i-val", v.T)
	default:
		return "true"
	}
	var fs []string
	for a, id := range fc.allocIDs {
		if fc.unescaped[a] || !fc.mayHaveRun(a) {
			fs = append(fs, not(eq(sx("allocid", ref), num(int64(id)))))
		}
	}
	sort.Strings(fs)
	if now, ok := fc.ghost["now"]; ok {
		fs = append(fs, sx("<=", sx("born", ref), now))
	}
	return and(fs...)
}

// resetSent: (re)defining an SSA value that is sent somewhere clears its hand-off flags.
func (fc *FnCtx) resetSent(v ssa.Value) {
	names := fc.sentOf[v]
	if len(names) == 0 {
		return
	}
	fc.ghost = cloneMap(fc.ghost)
	for _, n := range names {
		fc.ghost[n] = "false"
	}
}

// bornBefore: the reference held by v (if any) was allocated no later than the current allocation clock.
func (fc *FnCtx) bornBefore(v Val, t types.Type) string {
	now, ok := fc.ghost["now"]
	if !ok {
		return "true"
	}
	switch t.Underlying().(type) {
	case *types.Pointer, *types.Map, *types.Chan:
		if v.Sort != sInt {
			return "true"
		}
		return sx("<=", sx("born", v.T), now)
	case *types.Slice:
		return sx("<=", sx("born", sx("s-obj", v.T)), now)
	case *types.Interface:
		return sx("<=", sx("born", sx("i-val", v.T)), now)
	}
	return "true"
}

// mayHaveRun: can allocation site a have executed before the current program point?
func (fc *FnCtx) mayHaveRun(a ssa.Value) bool {
	in, ok := a.(ssa.Instruction)
	if !ok || fc.cur == nil {
		return false
	}
	ab := in.Block()
	if ab == nil {
		return true
	}
	if fc.blockReaches(ab, fc.cur) {
		if ab != fc.cur {
			return true
		}
		// same block: earlier instruction, or the block lies on a cycle
		if fc.onCycle(ab) {
			return true
		}
		for i, x := range ab.Instrs {
			if x == in {
				return i < fc.curIdx
			}
		}
		return true
	}
	return false
}

func (fc *FnCtx) blockReaches(a, b *ssa.BasicBlock) bool {
	if fc.reachM == nil {
		fc.reachM = map[int]map[int]bool{}
	}
	m, ok := fc.reachM[a.Index]
	if !ok {
		m = map[int]bool{}
		stack := []*ssa.BasicBlock{a}
		m[a.Index] = true
		for len(stack) > 0 {
			x := stack[len(stack)-1]
			stack = stack[:len(stack)-1]
			for _, s := range x.Succs {
				if !m[s.Index] {
					m[s.Index] = true
					stack = append(stack, s)
				}
			}
		}
		fc.reachM[a.Index] = m
	}
	return m[b.Index]
}

func (fc *FnCtx) onCycle(b *ssa.BasicBlock) bool {
	for _, s := range b.Succs {
		if fc.blockReaches(s, b) {
			return true
		}
	}
	return false
}

func (fc *FnCtx) valOf(v ssa.Value) Val {
	if r, ok := fc.vals[v]; ok {
		return r
	}
	switch x := v.(type) {
	case *ssa.Const:
		r := fc.constVal(x)
		return r
	case *ssa.Global:
		r := fc.globalAddr(x)
		fc.vals[v] = r
		return r
	case *ssa.Function:
		r := scalar(qsym("fn."+x.String()), sInt, x.Type())
		fc.declare(r.T, sInt)
		fc.vals[v] = r
		return r
	case *ssa.Builtin:
		return scalar("0", sInt, x.Type())
	}
	fc.note("internal: value %s (%T) used before definition; havocked", v.Name(), v)
	r := fc.freshVal("undef."+v.Name(), v.Type())
	fc.vals[v] = r
	return r
}

func (fc *FnCtx) constVal(c *ssa.Const) Val {
	t := c.Type()
	if c.Value == nil {
		return fc.zeroVal(t)
	}
	switch c.Value.Kind() {
	case constant.Bool:
		if constant.BoolVal(c.Value) {
			return scalar("true", sBool, t)
		}
		return scalar("false", sBool, t)
	case constant.Int:
		bi, _ := new(big.Int).SetString(c.Value.ExactString(), 10)
		if bi == nil {
			bi = big.NewInt(c.Int64())
		}
		return scalar(bignum(bi), sInt, t)
	case constant.String:
		v := fc.strLit(constant.StringVal(c.Value))
		v.Typ = t
		return v
	case constant.Float:
		return scalar(fc.fresh("float", sInt), sInt, t)
	}
	return fc.freshVal("const", t)
}

// strLit: string constants are interned ids with known length and (for short ones) bytes.
func (fc *FnCtx) strLit(s string) Val {
	if s == "" {
		return Val{T: "0", Sort: sInt, IsStr: true}
	}
	if n, ok := fc.strLits[s]; ok {
		return Val{T: n, Sort: sInt, IsStr: true}
	}
	n := qsym(fmt.Sprintf("str!%d", len(fc.strLits)+1))
	fc.declare(n, sInt)
	fc.assume(eq(sx("slen", n), num(int64(len(s)))))
	if len(s) <= 24 {
		for i := 0; i < len(s); i++ {
			fc.assume(eq(sx("sbyte", n, num(int64(i))), num(int64(s[i]))))
		}
	}
	for o, on := range fc.strLits {
		if o != s {
			fc.assume(not(eq(n, on)))
		}
	}
	fc.strLits[s] = n
	return Val{T: n, Sort: sInt, IsStr: true}
}

func (fc *FnCtx) globalAddr(g *ssa.Global) Val {
	elem := derefType(g.Type())
	name := g.Name()
	if g.Pkg != fc.eng.pkg {
		name = g.Pkg.Pkg.Name() + "." + name
	}
	if sortOf(elem) != "" {
		region := "G." + name
		if g.Pkg != fc.eng.pkg {
			// package-level variables of dependencies (io.EOF, ...) are treated as constants
			region = "K.G." + name
			fc.trusted["package-level variable "+name+" of a dependency is treated as a constant"] = true
		}
		if fc.eng.immutableGlobals[g] {
			region = "K.G." + name
			fc.immutableGlobalFacts(g, region, elem)
		}
		return Val{Loc: &Loc{Region: region, Sort: sortOf(elem), Typ: elem}, Typ: g.Type()}
	}
	// aggregate global: a fixed non-nil reference
	ref := qsym("gref." + name)
	if !fc.declared[ref] {
		fc.declare(ref, sInt)
		fc.assume(not(eq(ref, "0")))
		fc.assume(eq(sx("allocid", ref), "0"))
		fc.assume(eq(sx("kind", ref), "0"))
	}
	return scalar(ref, sInt, g.Type())
}

// ---------------------------------------------------------------------------
// Sub-references (embedded structs, struct elements of slices)

func (fc *FnCtx) subRef(st types.Type, f *types.Var, base string) string {
	fn := qsym("sub." + fc.eng.typeKey(st) + "." + f.Name())
	if !fc.declared[fn] {
		fc.declareFun(fn, []string{sInt}, sInt)
		inv := qsym("sub." + fc.eng.typeKey(st) + "." + f.Name() + ".inv")
		fc.declareFun(inv, []string{sInt}, sInt)
		k := fc.eng.typeIDOf(types.NewPointer(st))*1000 + fieldIndex(st, f) + 1
		t := sx(fn, "r")
		fc.assume(fmt.Sprintf("(forall ((r Int)) (! %s :pattern (%s)))",
			and(eq(sx(inv, t), "r"), eq(sx("kind", t), num(int64(k))), eq(sx("allocid", t), sx("allocid", "r")), not(eq(t, "0"))), t))
	}
	return sx(fn, base)
}

func fieldIndex(st types.Type, f *types.Var) int {
	s, _ := structOf(st)
	for i := 0; i < s.NumFields(); i++ {
		if s.Field(i) == f {
			return i
		}
	}
	return 0
}

func (fc *FnCtx) elemRef(elem types.Type, obj, idx string) string {
	key := fc.eng.typeKey(elem)
	fn := qsym("elem." + key)
	if !fc.declared[fn] {
		fc.declareFun(fn, []string{sInt, sInt}, sInt)
		io := qsym("elem." + key + ".obj")
		ii := qsym("elem." + key + ".idx")
		fc.declareFun(io, []string{sInt}, sInt)
		fc.declareFun(ii, []string{sInt}, sInt)
		k := fc.eng.typeIDOf(types.NewSlice(elem))*1000 + 999
		t := sx(fn, "o", "i")
		fc.assume(fmt.Sprintf("(forall ((o Int) (i Int)) (! %s :pattern (%s)))",
			and(eq(sx(io, t), "o"), eq(sx(ii, t), "i"), eq(sx("kind", t), num(int64(k))), eq(sx("allocid", t), sx("allocid", "o")), not(eq(t, "0"))), t))
		// every reference of this kind is an element reference
		fc.assume(fmt.Sprintf("(forall ((r Int)) (! (=> (= (kind r) %d) (= r (%s (%s r) (%s r)))) :pattern ((%s r))))", k, fn, io, ii, io))
	}
	return sx(fn, obj, idx)
}

// fieldAddr: address of field f of the struct object at ref base.
func (fc *FnCtx) fieldAddr(st types.Type, f *types.Var, base string) Val {
	if sortOf(f.Type()) == "" {
		if _, ok := f.Type().Underlying().(*types.Array); ok {
			// array field: addressed as an element object
			return scalar(fc.subRef(st, f, base), sInt, types.NewPointer(f.Type()))
		}
		return scalar(fc.subRef(st, f, base), sInt, types.NewPointer(f.Type()))
	}
	return Val{Loc: &Loc{Region: fc.eng.fieldRegion(st, f), Idx: []string{base}, Sort: sortOf(f.Type()), Typ: f.Type()}, Typ: types.NewPointer(f.Type())}
}

// ---------------------------------------------------------------------------
// Loads and stores

func (fc *FnCtx) regionSort(l *Loc) string {
	s := l.Sort
	for range l.Idx {
		s = arrSort(s)
	}
	return s
}

func (fc *FnCtx) loadLoc(h *Heap, l *Loc) Val {
	r := h.get(l.Region, fc.regionSort(l))
	t := r
	for _, i := range l.Idx {
		t = sel(t, i)
	}
	v := scalar(t, l.Sort, l.Typ)
	if l.Typ != nil {
		if b, ok := l.Typ.Underlying().(*types.Basic); ok && b.Info()&types.IsString != 0 {
			v.IsStr = true
		}
	}
	return v
}

func (fc *FnCtx) storeLoc(h *Heap, l *Loc, v string) {
	r := h.get(l.Region, fc.regionSort(l))
	switch len(l.Idx) {
	case 0:
		h.set(l.Region, v)
	case 1:
		h.set(l.Region, store(r, l.Idx[0], v))
	case 2:
		h.set(l.Region, store(r, l.Idx[0], store(sel(r, l.Idx[0]), l.Idx[1], v)))
	default:
		panic("storeLoc: too many indices")
	}
}

// pointee returns the addressable form of a pointer value: either a cell location or a struct reference.
func (fc *FnCtx) ptrLoc(p Val, elem types.Type) *Loc {
	if p.Loc != nil {
		return p.Loc
	}
	// Int reference to a scalar cell
	return &Loc{Region: "C." + fc.eng.elemKey(elem), Idx: []string{p.T}, Sort: sortOf(elem), Typ: elem}
}

// loadVal loads a value of type t from the object/cell designated by pointer p.
func (fc *FnCtx) loadVal(h *Heap, p Val, t types.Type) Val {
	if sortOf(t) != "" {
		return fc.loadLoc(h, fc.ptrLoc(p, t))
	}
	switch u := t.Underlying().(type) {
	case *types.Struct:
		v := Val{Typ: t}
		for i := 0; i < u.NumFields(); i++ {
			f := u.Field(i)
			fa := fc.fieldAddr(t, f, p.T)
			v.Fields = append(v.Fields, fc.loadVal(h, fa, f.Type()))
		}
		return v
	case *types.Array:
		v := Val{Typ: t}
		n := int(u.Len())
		if n > 64 {
			fc.note("unsupported: load of large array %s", t)
			return fc.freshVal("bigarray", t)
		}
		for i := 0; i < n; i++ {
			v.Fields = append(v.Fields, fc.loadVal(h, fc.arrayElemAddr(p, u.Elem(), num(int64(i))), u.Elem()))
		}
		return v
	}
	return fc.freshVal("load", t)
}

func (fc *FnCtx) storeVal(h *Heap, p Val, t types.Type, v Val) {
	if sortOf(t) != "" {
		fc.storeLoc(h, fc.ptrLoc(p, t), v.T)
		return
	}
	switch u := t.Underlying().(type) {
	case *types.Struct:
		for i := 0; i < u.NumFields(); i++ {
			f := u.Field(i)
			fa := fc.fieldAddr(t, f, p.T)
			if i < len(v.Fields) {
				fc.storeVal(h, fa, f.Type(), v.Fields[i])
			}
		}
	case *types.Array:
		for i := 0; i < int(u.Len()) && i < len(v.Fields); i++ {
			fc.storeVal(h, fc.arrayElemAddr(p, u.Elem(), num(int64(i))), u.Elem(), v.Fields[i])
		}
	}
}

func (fc *FnCtx) arrayElemAddr(arr Val, elem types.Type, idx string) Val {
	if sortOf(elem) == "" {
		return scalar(fc.elemRef(elem, arr.T, idx), sInt, types.NewPointer(elem))
	}
	region := "E." + fc.eng.elemKey(elem)
	return Val{Loc: &Loc{Region: region, Idx: []string{arr.T, idx}, Sort: sortOf(elem), Typ: elem}, Typ: types.NewPointer(elem)}
}

func (fc *FnCtx) sliceElemAddr(s Val, elem types.Type, idx string) Val {
	obj := sx("s-obj", s.T)
	i := add(sx("s-off", s.T), idx)
	if sortOf(elem) == "" {
		return scalar(fc.elemRef(elem, obj, i), sInt, types.NewPointer(elem))
	}
	region := "E." + fc.eng.elemKey(elem)
	return Val{Loc: &Loc{Region: region, Idx: []string{obj, i}, Sort: sortOf(elem), Typ: elem}, Typ: types.NewPointer(elem)}
}

// allocate: a fresh object reference for allocation site v.
func (fc *FnCtx) newRef(site ssa.Value, name string) string {
	r := fc.fresh("alloc."+name, sInt)
	id := fc.allocIDs[site]
	// allocation clock: the new object is born after every value seen so far
	fc.ghost = cloneMap(fc.ghost)
	now := fc.fresh("now", sInt)
	fc.assumeHere(eq(now, sx("+", fc.ghost["now"], "1")))
	fc.ghost["now"] = now
	fc.assumeHere(and(not(eq(r, "0")), eq(sx("allocid", r), num(int64(id))), eq(sx("kind", r), "0"), eq(sx("born", r), now)))
	return r
}

// zeroInit stores zero values into all cells of a fresh object.
func (fc *FnCtx) zeroInit(p Val, t types.Type) {
	fc.storeVal(fc.heap, p, t, fc.zeroVal(t))
}

// ---------------------------------------------------------------------------
// Instruction semantics

func (fc *FnCtx) exec(in ssa.Instruction) {
	switch x := in.(type) {
	case *ssa.DebugRef:
		return
	case *ssa.Alloc:
		fc.execAlloc(x)
	case *ssa.BinOp:
		fc.vals[x] = fc.binop(x)
	case *ssa.UnOp:
		fc.execUnOp(x)
	case *ssa.Call:
		res := fc.doCall(x, x.Common(), x.Pos())
		fc.vals[x] = res
	case *ssa.ChangeInterface:
		fc.vals[x] = fc.valOf(x.X)
	case *ssa.ChangeType:
		v := fc.valOf(x.X)
		v.Typ = x.Type()
		fc.vals[x] = v
	case *ssa.Convert:
		fc.vals[x] = fc.convert(x)
	case *ssa.Extract:
		t := fc.valOf(x.Tuple)
		if x.Index < len(t.Fields) {
			fc.vals[x] = t.Fields[x.Index]
		} else {
			fc.vals[x] = fc.freshVal("extract", x.Type())
		}
	case *ssa.Field:
		s := fc.valOf(x.X)
		if x.Field < len(s.Fields) {
			fc.vals[x] = s.Fields[x.Field]
		} else {
			fc.vals[x] = fc.freshVal("field", x.Type())
		}
	case *ssa.FieldAddr:
		base := fc.valOf(x.X)
		st := derefType(x.X.Type())
		s, _ := structOf(st)
		fc.oblige("nil", fc.srcText(x.Pos()), not(eq(base.T, "0")), nil, "pointer is not nil in field access", x.Pos())
		for _, name := range fc.sentOf[x.X] {
			// named after the send (not after the access) so that the same accesses keep their names when they move
			what := name
			for _, st := range fc.sentAt {
				if st.name == name {
					what = fc.srcText(st.instr.Pos())
				}
			}
			fc.oblige("handoff", what, not(fc.ghost[name]), nil, "the object is not accessed ("+fc.srcText(x.Pos())+") after it was handed to another goroutine over a channel", x.Pos())
		}
		fc.vals[x] = fc.fieldAddr(st, s.Field(x.Field), base.T)
	case *ssa.IndexAddr:
		fc.execIndexAddr(x)
	case *ssa.Index:
		fc.execIndex(x)
	case *ssa.Slice:
		fc.execSlice(x)
	case *ssa.Store:
		addr := fc.valOf(x.Addr)
		v := fc.valOf(x.Val)
		elem := derefType(x.Addr.Type())
		fc.checkNilPtr(addr, x.Pos(), "store")
		fc.checkGuard(x.Addr, x.Pos(), true)
		fc.storeVal(fc.heap, addr, elem, v)
	case *ssa.MakeInterface:
		fc.vals[x] = fc.makeInterface(x)
	case *ssa.TypeAssert:
		fc.execTypeAssert(x)
	case *ssa.MakeSlice:
		fc.execMakeSlice(x)
	case *ssa.MakeMap:
		r := fc.newRef(x, "map")
		mt := x.Type().Underlying().(*types.Map)
		dom := fc.eng.mapRegion(mt, "dom")
		ds := arr2Sort(sBool)
		fc.heap.set(dom, store(fc.heap.get(dom, ds), r, "((as const (Array Int Bool)) false)"))
		fc.vals[x] = scalar(r, sInt, x.Type())
	case *ssa.MakeChan:
		// anchor `at make(chan T)`: arg0 is the capacity
		fc.hookAnchor("make", fc.srcText(x.Pos()), x, []Val{fc.valOf(x.Size)}, nil)
		r := fc.newRef(x, "chan")
		fc.vals[x] = scalar(r, sInt, x.Type())
		fc.hookAnchorAfter("make", fc.srcText(x.Pos()), x, []Val{fc.valOf(x.Size)}, fc.vals[x], nil)
	case *ssa.MakeClosure:
		fc.vals[x] = scalar(fc.fresh("closure", sInt), sInt, x.Type())
	case *ssa.Lookup:
		fc.execLookup(x)
	case *ssa.MapUpdate:
		fc.execMapUpdate(x)
	case *ssa.Range:
		fc.vals[x] = scalar(fc.fresh("range", sInt), sInt, x.Type())
	case *ssa.Next:
		fc.execNext(x)
	case *ssa.Select:
		fc.execSelect(x)
	case *ssa.Send:
		// anchor `at send(text)`: arg0 is the channel, arg1 the value sent
		fc.hookAnchor("send", fc.srcText(x.Pos()), x, []Val{fc.valOf(x.Chan), fc.valOf(x.X)}, nil)
		fc.blockingPoint("send", x.Pos())
		for _, st := range fc.sentAt {
			if st.instr == x {
				fc.ghost = cloneMap(fc.ghost)
				fc.ghost[st.name] = "true"
			}
		}
		if h, ok := fc.ghost["handedobj"]; ok {
			if _, isPtr := x.X.Type().Underlying().(*types.Pointer); isPtr {
				fc.ghost = cloneMap(fc.ghost)
				fc.ghost["handedobj"] = store(h, fc.valOf(x.X).T, "true")
			}
		}
	case *ssa.Go:
		fc.execGo(x)
	case *ssa.Defer:
		fc.execDefer(x)
	case *ssa.RunDefers:
		fc.runDefers()
	case *ssa.Panic:
		fc.oblige("panic", "", "false", nil, "explicit panic is unreachable", x.Pos())
	case *ssa.If, *ssa.Jump:
		return
	case *ssa.Return:
		fc.execReturn(x)
	default:
		fc.note("unsupported instruction %T in %s: heap havocked", in, fc.name)
		fc.havocAll("unsupported")
		if v, ok := in.(ssa.Value); ok {
			fc.vals[v] = fc.freshVal("unsupported", v.Type())
		}
	}
}

func (fc *FnCtx) checkNilPtr(p Val, pos token.Pos, what string) {
	if p.Loc != nil {
		return // derived from a checked base
	}
	if p.Sort == sInt {
		fc.oblige("nil", fc.srcText(pos), not(eq(p.T, "0")), nil, "pointer is not nil in "+what, pos)
	}
}

func (fc *FnCtx) execAlloc(x *ssa.Alloc) {
	elem := derefType(x.Type())
	name := x.Comment
	if name == "" {
		name = "new"
	}
	if sortOf(elem) != "" {
		// scalar cell
		r := fc.newRef(x, name)
		l := &Loc{Region: "C." + fc.eng.elemKey(elem), Idx: []string{r}, Sort: sortOf(elem), Typ: elem}
		v := Val{Loc: l, Typ: x.Type()}
		fc.storeLoc(fc.heap, l, zeroOf(l.Sort))
		fc.vals[x] = v
		fc.allocRefs[x] = v
		return
	}
	r := fc.newRef(x, name)
	v := scalar(r, sInt, x.Type())
	fc.zeroInit(v, elem)
	fc.vals[x] = v
	fc.allocRefs[x] = v
}

func (fc *FnCtx) execMakeSlice(x *ssa.MakeSlice) {
	ln := fc.valOf(x.Len)
	cp := fc.valOf(x.Cap)
	txt := fc.srcText(x.Pos())
	fc.oblige("alloc", txt, and(sx("<=", "0", ln.T), sx("<=", ln.T, cp.T)), nil, "make: 0 <= len <= cap", x.Pos())
	fc.hookAnchor("make", txt, x, []Val{ln, cp}, nil)
	obj := fc.newRef(x, "make")
	elem := x.Type().Underlying().(*types.Slice).Elem()
	s := sx("mk-slice", obj, "0", ln.T, cp.T)
	v := scalar(s, sSlice, x.Type())
	fc.zeroSlice(obj, elem)
	fc.vals[x] = v
	fc.allocRefs[x] = v
}

func (fc *FnCtx) zeroSlice(obj string, elem types.Type) {
	if es := sortOf(elem); es != "" {
		region := "E." + fc.eng.elemKey(elem)
		r := fc.heap.get(region, arr2Sort(es))
		fc.heap.set(region, store(r, obj, sx("(as const "+arrSort(es)+")", zeroOf(es))))
		return
	}
	// struct elements: all field regions zero at every element of obj
	if st, ok := structOf(elem); ok {
		_ = st
		for _, cell := range fc.flattenCells(elem, "") {
			// quantified fact about the new region version
			region := cell.region
			old := fc.heap.get(region, arrSort(cell.sort))
			nw := fc.fresh(region+"@mk", arrSort(cell.sort))
			key := fc.eng.typeKey(elem)
			eo, ei := qsym("elem."+key+".obj"), qsym("elem."+key+".idx")
			fc.elemRef(elem, obj, "0") // make sure functions are declared
			k := fc.eng.typeIDOf(types.NewSlice(elem))*1000 + 999
			// r is the cell's base reference: for nested fields it is sub...(elem); only direct fields are zeroed precisely
			if cell.path == "" {
				isElem := and(eq(sx("kind", "r"), num(int64(k))), eq(sx(eo, "r"), obj))
				fc.assumeHere(fmt.Sprintf("(forall ((r Int)) (! (= (select %s r) (ite %s %s (select %s r))) :pattern ((select %s r))))", nw, isElem, zeroOf(cell.sort), old, nw))
				_ = ei
			} else {
				fc.note("imprecise: nested struct elements of fresh slice %s not zero-initialised in the model", elem)
				fc.assumeHere(eq(nw, old))
			}
			fc.heap.set(region, nw)
		}
	}
}

type cellDesc struct {
	region string
	sort   string
	path   string
	typ    types.Type
}

// flattenCells lists the scalar cells of a struct type (direct fields have path "").
func (fc *FnCtx) flattenCells(t types.Type, path string) []cellDesc {
	var out []cellDesc
	if st, ok := structOf(t); ok {
		for i := 0; i < st.NumFields(); i++ {
			f := st.Field(i)
			if s := sortOf(f.Type()); s != "" {
				out = append(out, cellDesc{fc.eng.fieldRegion(t, f), s, path, f.Type()})
			} else {
				out = append(out, fc.flattenCells(f.Type(), path+"."+f.Name())...)
			}
		}
	}
	return out
}

func (fc *FnCtx) execUnOp(x *ssa.UnOp) {
	switch x.Op {
	case token.MUL: // load
		p := fc.valOf(x.X)
		fc.checkNilPtr(p, x.Pos(), "load")
		v := fc.loadVal(fc.heap, p, x.Type())
		fc.assumeHere(fc.typeFacts(v, x.Type()))
		fc.assumeHere(fc.notAllocated(v, x.Type()))
		fc.checkGuard(x.X, x.Pos(), false)
		fc.vals[x] = v
	case token.NOT:
		v := fc.valOf(x.X)
		fc.vals[x] = scalar(not(v.T), sBool, x.Type())
	case token.SUB:
		v := fc.valOf(x.X)
		if k, ok := intKindOf(x.Type()); ok {
			fc.vals[x] = scalar(k.wrap(sx("-", v.T)), sInt, x.Type())
		} else {
			fc.vals[x] = fc.freshVal("neg", x.Type())
		}
	case token.XOR:
		v := fc.valOf(x.X)
		if k, ok := intKindOf(x.Type()); ok {
			if k.signed {
				fc.vals[x] = scalar(sx("-", sx("-", v.T), "1"), sInt, x.Type())
			} else {
				fc.vals[x] = scalar(sx("-", bignum(k.max()), v.T), sInt, x.Type())
			}
		} else {
			fc.vals[x] = fc.freshVal("not", x.Type())
		}
	case token.ARROW:
		ch := fc.valOf(x.X)
		fc.hookAnchor("recv", fc.srcText(x.Pos()), x, []Val{ch}, nil)
		fc.blockingPoint("recv", x.Pos())
		var v Val
		if x.CommaOk {
			t := x.Type().(*types.Tuple)
			v = Val{Typ: t, Fields: []Val{fc.freshVal("recv", t.At(0).Type()), fc.freshVal("recvok", t.At(1).Type())}}
			fc.assumeHere(fc.typeFacts(v.Fields[0], t.At(0).Type()))
		} else {
			v = fc.freshVal("recv", x.Type())
			fc.assumeHere(fc.typeFacts(v, x.Type()))
		}
		fc.vals[x] = v
	default:
		fc.vals[x] = fc.freshVal("unop", x.Type())
	}
}

func (fc *FnCtx) execIndexAddr(x *ssa.IndexAddr) {
	base := fc.valOf(x.X)
	idx := fc.valOf(x.Index)
	txt := fc.srcText(x.Pos())
	switch bt := x.X.Type().Underlying().(type) {
	case *types.Slice:
		fc.oblige("bounds:index", txt, and(sx("<=", "0", idx.T), sx("<", idx.T, sx("s-len", base.T))), nil, "index in range", x.Pos())
		fc.vals[x] = fc.sliceElemAddr(base, bt.Elem(), idx.T)
	case *types.Pointer:
		at := bt.Elem().Underlying().(*types.Array)
		fc.checkNilPtr(base, x.Pos(), "array index")
		fc.oblige("bounds:index", txt, and(sx("<=", "0", idx.T), sx("<", idx.T, num(at.Len()))), nil, "array index in range", x.Pos())
		if g, ok := x.X.(*ssa.Global); ok && fc.eng.immutableGlobals[g] {
			fc.vals[x] = fc.constArrayElem(g, at, idx.T)
			return
		}
		fc.vals[x] = fc.arrayElemAddr(base, at.Elem(), idx.T)
	default:
		fc.vals[x] = fc.freshVal("indexaddr", x.Type())
	}
}

// constArrayElem: element of an immutable package-level array with a constant initialiser.
func (fc *FnCtx) constArrayElem(g *ssa.Global, at *types.Array, idx string) Val {
	region := "K.A." + g.Name()
	sort := sortOf(at.Elem())
	if !fc.declared[qsym(region+"@0")] {
		arr := fc.entryHeap.get(region, arrSort(sort))
		if vals := fc.eng.constArrayValues(g); vals != nil {
			for i, v := range vals {
				fc.assume(eq(sel(arr, num(int64(i))), v))
			}
			fc.trusted["package-level array "+g.Name()+" is never written after init (checked mechanically); its elements are taken from its initialiser"] = true
		}
	}
	return Val{Loc: &Loc{Region: region, Idx: []string{idx}, Sort: sort, Typ: at.Elem()}, Typ: types.NewPointer(at.Elem())}
}

func (fc *FnCtx) execIndex(x *ssa.Index) {
	base := fc.valOf(x.X)
	idx := fc.valOf(x.Index)
	txt := fc.srcText(x.Pos())
	if b, ok := x.X.Type().Underlying().(*types.Basic); ok && b.Info()&types.IsString != 0 {
		fc.oblige("bounds:index", txt, and(sx("<=", "0", idx.T), sx("<", idx.T, sx("slen", base.T))), nil, "string index in range", x.Pos())
		fc.vals[x] = scalar(sx("sbyte", base.T, idx.T), sInt, x.Type())
		return
	}
	fc.vals[x] = fc.freshVal("index", x.Type())
}

func (fc *FnCtx) execSlice(x *ssa.Slice) {
	base := fc.valOf(x.X)
	txt := fc.srcText(x.Pos())
	lo := "0"
	if x.Low != nil {
		lo = fc.valOf(x.Low).T
	}
	switch bt := x.X.Type().Underlying().(type) {
	case *types.Slice:
		hi := sx("s-len", base.T)
		if x.High != nil {
			hi = fc.valOf(x.High).T
		}
		mx := sx("s-cap", base.T)
		var goal string
		if x.Max != nil {
			m := fc.valOf(x.Max).T
			goal = and(sx("<=", "0", lo), sx("<=", lo, hi), sx("<=", hi, m), sx("<=", m, sx("s-cap", base.T)))
			mx = m
		} else {
			goal = and(sx("<=", "0", lo), sx("<=", lo, hi), sx("<=", hi, sx("s-cap", base.T)))
		}
		fc.oblige("bounds:slice", txt, goal, nil, "slice bounds in range", x.Pos())
		s := sx("mk-slice", sx("s-obj", base.T), add(sx("s-off", base.T), lo), sub(hi, lo), sub(mx, lo))
		fc.vals[x] = scalar(s, sSlice, x.Type())
	case *types.Basic: // string
		hi := sx("slen", base.T)
		if x.High != nil {
			hi = fc.valOf(x.High).T
		}
		fc.oblige("bounds:slice", txt, and(sx("<=", "0", lo), sx("<=", lo, hi), sx("<=", hi, sx("slen", base.T))), nil, "string slice bounds in range", x.Pos())
		r := fc.fresh("substr", sInt)
		fc.assumeHere(eq(sx("slen", r), sub(hi, lo)))
		fc.assumeHere(fmt.Sprintf("(forall ((k Int)) (! (=> (and (<= 0 k) (< k (slen %s))) (= (sbyte %s k) (sbyte %s (+ %s k)))) :pattern ((sbyte %s k))))", r, r, base.T, lo, r))
		fc.assumeHere(implies(and(eq(lo, "0"), eq(hi, sx("slen", base.T))), eq(r, base.T)))
		fc.vals[x] = Val{T: r, Sort: sInt, Typ: x.Type(), IsStr: true}
	case *types.Pointer: // pointer to array
		at := bt.Elem().Underlying().(*types.Array)
		hi := num(at.Len())
		if x.High != nil {
			hi = fc.valOf(x.High).T
		}
		fc.oblige("bounds:slice", txt, and(sx("<=", "0", lo), sx("<=", lo, hi), sx("<=", hi, num(at.Len()))), nil, "array slice bounds in range", x.Pos())
		s := sx("mk-slice", base.T, lo, sub(hi, lo), sub(num(at.Len()), lo))
		fc.vals[x] = scalar(s, sSlice, x.Type())
	default:
		fc.vals[x] = fc.freshVal("slice", x.Type())
	}
}

func (fc *FnCtx) makeInterface(x *ssa.MakeInterface) Val {
	v := fc.valOf(x.X)
	tag := num(int64(fc.eng.typeIDOf(x.X.Type())))
	var payload string
	switch v.Sort {
	case sInt:
		payload = v.T
	case sBool:
		payload = ite(v.T, "1", "0")
	default:
		payload = fc.fresh("boxed", sInt)
	}
	return scalar(sx("mk-iface", tag, payload), sIface, x.Type())
}

func (fc *FnCtx) execTypeAssert(x *ssa.TypeAssert) {
	v := fc.valOf(x.X)
	txt := fc.srcText(x.Pos())
	var ok string
	var res Val
	if types.IsInterface(x.AssertedType) {
		iid := num(int64(fc.eng.typeIDOf(x.AssertedType)))
		if it, isI := x.AssertedType.Underlying().(*types.Interface); isI && it.NumMethods() == 0 {
			ok = not(eq(v.T, zeroOf(sIface)))
		} else {
			ok = and(not(eq(sx("i-tag", v.T), "0")), sx("implements", sx("i-tag", v.T), iid))
		}
		res = scalar(v.T, sIface, x.AssertedType)
	} else {
		tid := num(int64(fc.eng.typeIDOf(x.AssertedType)))
		ok = eq(sx("i-tag", v.T), tid)
		switch sortOf(x.AssertedType) {
		case sInt:
			res = scalar(sx("i-val", v.T), sInt, x.AssertedType)
			if b, isB := x.AssertedType.Underlying().(*types.Basic); isB && b.Info()&types.IsString != 0 {
				res.IsStr = true
			}
		case sBool:
			res = scalar(eq(sx("i-val", v.T), "1"), sBool, x.AssertedType)
		default:
			res = fc.freshVal("unboxed", x.AssertedType)
		}
	}
	if x.CommaOk {
		// on failure the value is the zero value
		var val Val
		if res.Sort != "" {
			val = scalar(ite(ok, res.T, zeroOf(res.Sort)), res.Sort, res.Typ)
			val.IsStr = res.IsStr
		} else {
			val = res
		}
		fc.vals[x] = Val{Typ: x.Type(), Fields: []Val{val, scalar(ok, sBool, types.Typ[types.Bool])}}
		return
	}
	fc.oblige("assert:type", txt, ok, nil, "type assertion succeeds", x.Pos())
	if k, isInt := intKindOf(x.AssertedType); isInt {
		fc.assumeHere(k.inRange(res.T))
	}
	fc.vals[x] = res
}

func (fc *FnCtx) execLookup(x *ssa.Lookup) {
	m := fc.valOf(x.X)
	k := fc.valOf(x.Index)
	if mt, ok := x.X.Type().Underlying().(*types.Map); ok {
		dom := fc.heap.get(fc.eng.mapRegion(mt, "dom"), arr2Sort(sBool))
		vs := sortOf(mt.Elem())
		if vs == "" || k.Sort != sInt {
			fc.note("unsupported: map with aggregate values/keys %s", mt)
			fc.vals[x] = fc.freshVal("lookup", x.Type())
			return
		}
		val := fc.heap.get(fc.eng.mapRegion(mt, "val"), arr2Sort(vs))
		present := and(not(eq(m.T, "0")), sel2(dom, m.T, k.T))
		v := scalar(ite(present, sel2(val, m.T, k.T), zeroOf(vs)), vs, mt.Elem())
		fc.assumeHere(fc.typeFacts(v, mt.Elem()))
		fc.assumeHere(fc.notAllocated(v, mt.Elem()))
		fc.checkGuard(x.X, x.Pos(), false)
		if x.CommaOk {
			fc.vals[x] = Val{Typ: x.Type(), Fields: []Val{v, scalar(present, sBool, types.Typ[types.Bool])}}
		} else {
			fc.vals[x] = v
		}
		return
	}
	// string index via lookup
	if b, ok := x.X.Type().Underlying().(*types.Basic); ok && b.Info()&types.IsString != 0 {
		fc.oblige("bounds:index", fc.srcText(x.Pos()), and(sx("<=", "0", k.T), sx("<", k.T, sx("slen", m.T))), nil, "string index in range", x.Pos())
		fc.vals[x] = scalar(sx("sbyte", m.T, k.T), sInt, x.Type())
		return
	}
	fc.vals[x] = fc.freshVal("lookup", x.Type())
}

func (fc *FnCtx) execMapUpdate(x *ssa.MapUpdate) {
	m := fc.valOf(x.Map)
	k := fc.valOf(x.Key)
	v := fc.valOf(x.Value)
	mt := x.Map.Type().Underlying().(*types.Map)
	fc.oblige("nil", "map:"+fc.srcText(x.Pos()), not(eq(m.T, "0")), nil, "assignment to entry in non-nil map", x.Pos())
	fc.checkGuard(x.Map, x.Pos(), true)
	vs := sortOf(mt.Elem())
	if vs == "" || k.Sort != sInt {
		fc.note("unsupported: map with aggregate values/keys %s", mt)
		return
	}
	dr, vr := fc.eng.mapRegion(mt, "dom"), fc.eng.mapRegion(mt, "val")
	dom := fc.heap.get(dr, arr2Sort(sBool))
	val := fc.heap.get(vr, arr2Sort(vs))
	fc.heap.set(dr, store(dom, m.T, store(sel(dom, m.T), k.T, "true")))
	fc.heap.set(vr, store(val, m.T, store(sel(val, m.T), k.T, v.T)))
}

func (fc *FnCtx) execNext(x *ssa.Next) {
	tt := x.Type().(*types.Tuple)
	okv := scalar(fc.fresh("next.ok", sBool), sBool, tt.At(0).Type())
	res := Val{Typ: tt, Fields: []Val{okv}}
	rng, _ := x.Iter.(*ssa.Range)
	for i := 1; i < tt.Len(); i++ {
		t := tt.At(i).Type()
		if b, ok := t.(*types.Basic); ok && b.Kind() == types.Invalid {
			res.Fields = append(res.Fields, scalar("0", sInt, t))
			continue
		}
		v := fc.freshVal(fmt.Sprintf("next.%d", i), t)
		fc.assumeHere(fc.typeFacts(v, t))
		fc.assumeHere(fc.notAllocated(v, t))
		res.Fields = append(res.Fields, v)
	}
	if rng != nil {
		if mt, ok := rng.X.Type().Underlying().(*types.Map); ok && len(res.Fields) == 3 {
			m := fc.valOf(rng.X)
			dom := fc.heap.get(fc.eng.mapRegion(mt, "dom"), arr2Sort(sBool))
			kv, vv := res.Fields[1], res.Fields[2]
			if kv.Sort == sInt && kv.T == "0" && sortOf(mt.Key()) == sInt {
				// blank key: the value still belongs to some key of the map
				kv = scalar(fc.fresh("next.key", sInt), sInt, mt.Key())
			}
			if kv.Sort == sInt && kv.T != "0" {
				fc.assumeHere(implies(okv.T, and(not(eq(m.T, "0")), sel2(dom, m.T, kv.T))))
				if vs := sortOf(mt.Elem()); vs != "" && vv.Sort == vs {
					val := fc.heap.get(fc.eng.mapRegion(mt, "val"), arr2Sort(vs))
					fc.assumeHere(implies(okv.T, eq(vv.T, sel2(val, m.T, kv.T))))
				}
			}
			fc.checkGuard(rng.X, x.Pos(), false)
		}
	}
	fc.vals[x] = res
	// anchor `at next(<range expression text>) after g := ...`: ret0 is the "another element" flag
	fc.hookAnchorAfter("next", fc.nextText(x), x, nil, res, nil)
}

func (fc *FnCtx) nextText(x *ssa.Next) string {
	if rng, ok := x.Iter.(*ssa.Range); ok {
		return fc.srcText(rng.Pos())
	}
	return fc.srcText(x.Pos())
}

func (fc *FnCtx) execSelect(x *ssa.Select) {
	fc.hookAnchor("select", fc.srcText(x.Pos()), x, nil, nil)
	tt := x.Type().(*types.Tuple)
	idx := scalar(fc.fresh("select.idx", sInt), sInt, tt.At(0).Type())
	lo := "0"
	if !x.Blocking {
		lo = "(- 1)"
	} else {
		fc.blockingPoint("select", x.Pos())
	}
	fc.assumeHere(and(sx("<=", lo, idx.T), sx("<", idx.T, num(int64(len(x.States))))))
	res := Val{Typ: tt, Fields: []Val{idx, scalar(fc.fresh("select.ok", sBool), sBool, tt.At(1).Type())}}
	for i := 2; i < tt.Len(); i++ {
		v := fc.freshVal(fmt.Sprintf("select.recv%d", i-2), tt.At(i).Type())
		fc.assumeHere(fc.typeFacts(v, tt.At(i).Type()))
		res.Fields = append(res.Fields, v)
	}
	fc.vals[x] = res
	if h, ok := fc.ghost["handedobj"]; ok {
		for k, st := range x.States {
			if st.Dir != types.SendOnly {
				continue
			}
			if _, isPtr := st.Send.Type().Underlying().(*types.Pointer); isPtr {
				h = ite(eq(idx.T, num(int64(k))), store(h, fc.valOf(st.Send).T, "true"), h)
			}
		}
		fc.ghost = cloneMap(fc.ghost)
		fc.ghost["handedobj"] = h
	}
	fc.hookAnchorAfter("select", fc.srcText(x.Pos()), x, nil, res, nil)
}

// ---------------------------------------------------------------------------
// Arithmetic

func (fc *FnCtx) binop(x *ssa.BinOp) Val {
	a, b := fc.valOf(x.X), fc.valOf(x.Y)
	t := x.Type()
	xt := x.X.Type()
	boolT := types.Typ[types.Bool]
	switch x.Op {
	case token.EQL, token.NEQ:
		var e string
		switch {
		case a.Sort == sSlice || b.Sort == sSlice:
			// comparison with nil only
			s := a
			if isNilConst(x.X) {
				s = b
			}
			e = eq(sx("s-obj", s.T), "0")
		case a.Sort != "" && b.Sort != "":
			e = eq(a.T, b.T)
		default:
			e = fc.structEq(a, b)
		}
		if x.Op == token.NEQ {
			e = not(e)
		}
		return scalar(e, sBool, boolT)
	case token.LSS, token.LEQ, token.GTR, token.GEQ:
		if a.IsStr {
			return fc.freshVal("strcmp", boolT)
		}
		op := map[token.Token]string{token.LSS: "<", token.LEQ: "<=", token.GTR: ">", token.GEQ: ">="}[x.Op]
		return scalar(sx(op, a.T, b.T), sBool, boolT)
	}
	if a.Sort == sBool {
		switch x.Op {
		case token.AND, token.LAND:
			return scalar(and(a.T, b.T), sBool, t)
		case token.OR, token.LOR:
			return scalar(or(a.T, b.T), sBool, t)
		}
	}
	if a.IsStr && x.Op == token.ADD {
		return fc.strConcat(a, b, t)
	}
	k, ok := intKindOf(t)
	if !ok {
		return fc.freshVal("binop", t)
	}
	_ = xt
	cb := constInt(x.Y)
	ca := constInt(x.X)
	switch x.Op {
	case token.ADD:
		return scalar(k.wrap(sx("+", a.T, b.T)), sInt, t)
	case token.SUB:
		return scalar(k.wrap(sx("-", a.T, b.T)), sInt, t)
	case token.MUL:
		return scalar(k.wrap(sx("*", a.T, b.T)), sInt, t)
	case token.QUO:
		fc.oblige("div", fc.srcText(x.Pos()), not(eq(b.T, "0")), nil, "division by non-zero", x.Pos())
		if k.signed {
			// Go truncates toward zero
			q := ite(sx(">=", a.T, "0"), sx("div", a.T, b.T), sx("-", sx("div", sx("-", a.T), b.T)))
			return scalar(k.wrap(q), sInt, t)
		}
		return scalar(sx("div", a.T, b.T), sInt, t)
	case token.REM:
		fc.oblige("div", fc.srcText(x.Pos()), not(eq(b.T, "0")), nil, "modulo by non-zero", x.Pos())
		if k.signed {
			r := ite(sx(">=", a.T, "0"), sx("mod", a.T, b.T), sx("-", sx("mod", sx("-", a.T), b.T)))
			return scalar(r, sInt, t)
		}
		return scalar(sx("mod", a.T, b.T), sInt, t)
	case token.SHL:
		if cb != nil && cb.IsInt64() && cb.Int64() < 64 {
			return scalar(k.wrap(sx("*", a.T, bignum(pow2(uint(cb.Int64()))))), sInt, t)
		}
		return fc.freshRanged("shl", t, k)
	case token.SHR:
		if cb != nil && cb.IsInt64() && cb.Int64() < 64 {
			return scalar(sx("div", a.T, bignum(pow2(uint(cb.Int64())))), sInt, t)
		}
		return fc.freshRanged("shr", t, k)
	case token.AND:
		if cb != nil {
			return scalar(fc.andConst(a.T, cb, k), sInt, t)
		}
		if ca != nil {
			return scalar(fc.andConst(b.T, ca, k), sInt, t)
		}
		r := scalar(sx("band", a.T, b.T), sInt, t)
		fc.assumeHere(k.inRange(r.T))
		return r
	case token.OR:
		if cb != nil {
			return scalar(fc.orConst(a.T, cb, k), sInt, t)
		}
		if ca != nil {
			return scalar(fc.orConst(b.T, ca, k), sInt, t)
		}
		r := sx("bor", a.T, b.T)
		fc.assumeHere(k.inRange(r))
		if !k.signed {
			for s := uint(8); s < k.bits; s += 8 {
				p := bignum(pow2(s))
				fc.assumeHere(implies(and(sx("<", a.T, p), eq(sx("mod", b.T, p), "0")), eq(r, sx("+", a.T, b.T))))
				fc.assumeHere(implies(and(sx("<", b.T, p), eq(sx("mod", a.T, p), "0")), eq(r, sx("+", a.T, b.T))))
			}
			fc.trusted["bitwise-or of a value below 2^k with a multiple of 2^k equals their sum (k = 8,16,..; bridging lemma)"] = true
		}
		return scalar(r, sInt, t)
	case token.AND_NOT:
		if cb != nil {
			return scalar(sx("-", a.T, fc.andConst(a.T, cb, k)), sInt, t)
		}
		return fc.freshRanged("andnot", t, k)
	case token.XOR:
		r := scalar(sx("bxor", a.T, b.T), sInt, t)
		fc.assumeHere(k.inRange(r.T))
		return r
	}
	return fc.freshRanged("binop", t, k)
}

func (fc *FnCtx) freshRanged(name string, t types.Type, k intKind) Val {
	v := scalar(fc.fresh(name, sInt), sInt, t)
	fc.assumeHere(k.inRange(v.T))
	fc.note("imprecise: %s with non-constant operand abstracted to an arbitrary value of its type", name)
	return v
}

// andConst: x & c for constant c (c may be negative for signed types).
func (fc *FnCtx) andConst(x string, c *big.Int, k intKind) string {
	if c.Sign() >= 0 {
		return andMask(x, c)
	}
	// negative mask: x & c == x - (x & ^c) where ^c = -c-1 >= 0
	nc := new(big.Int).Sub(new(big.Int).Neg(c), big.NewInt(1))
	return sx("-", x, andMask(x, nc))
}

func (fc *FnCtx) orConst(x string, c *big.Int, k intKind) string {
	if c.Sign() == 0 {
		return x
	}
	if c.Sign() > 0 {
		// x | c == x - (x & c) + c
		return sx("+", sx("-", x, andMask(x, c)), bignum(c))
	}
	return fc.fresh("orneg", sInt)
}

func constInt(v ssa.Value) *big.Int {
	c, ok := v.(*ssa.Const)
	if !ok || c.Value == nil || c.Value.Kind() != constant.Int {
		return nil
	}
	bi, ok2 := new(big.Int).SetString(c.Value.ExactString(), 10)
	if !ok2 {
		return nil
	}
	return bi
}

func isNilConst(v ssa.Value) bool {
	c, ok := v.(*ssa.Const)
	return ok && c.Value == nil
}

func (fc *FnCtx) structEq(a, b Val) string {
	if a.Sort != "" && b.Sort != "" {
		return eq(a.T, b.T)
	}
	var fs []string
	for i := range a.Fields {
		if i < len(b.Fields) {
			fs = append(fs, fc.structEq(a.Fields[i], b.Fields[i]))
		}
	}
	return and(fs...)
}

func (fc *FnCtx) strConcat(a, b Val, t types.Type) Val {
	// concatenation is the spec function strcat (length and bytes axiomatised in the prelude)
	return Val{T: sx("strcat", a.T, b.T), Sort: sInt, Typ: t, IsStr: true}
}

func (fc *FnCtx) convert(x *ssa.Convert) Val {
	v := fc.valOf(x.X)
	from, to := x.X.Type(), x.Type()
	if kt, ok := intKindOf(to); ok {
		if _, ok2 := intKindOf(from); ok2 {
			return scalar(kt.wrap(v.T), sInt, to)
		}
		// float -> int etc.
		r := scalar(fc.fresh("conv", sInt), sInt, to)
		fc.assumeHere(kt.inRange(r.T))
		return r
	}
	tb, tIsBasic := to.Underlying().(*types.Basic)
	if tIsBasic && tb.Info()&types.IsString != 0 {
		if _, isSlice := from.Underlying().(*types.Slice); isSlice {
			// string(bytes)
			r := fc.fresh("str", sInt)
			mem := fc.heap.get("E.u8", arr2Sort(sInt))
			fc.assumeHere(eq(sx("slen", r), sx("s-len", v.T)))
			fc.assumeHere(fmt.Sprintf("(forall ((k Int)) (! (=> (and (<= 0 k) (< k (s-len %s))) (= (sbyte %s k) (select (select %s (s-obj %s)) (+ (s-off %s) k)))) :pattern ((sbyte %s k))))", v.T, r, mem, v.T, v.T, r))
			return Val{T: r, Sort: sInt, Typ: to, IsStr: true}
		}
		if v.IsStr {
			v.Typ = to
			return v
		}
		r := fc.freshVal("strconv", to)
		return r
	}
	if ts, ok := to.Underlying().(*types.Slice); ok {
		if v.IsStr {
			// []byte(string): fresh object holding the string's bytes
			obj := fc.newRef(x, "bytes")
			arr := fc.fresh("bytes.arr", arrSort(sInt))
			fc.assumeHere(fmt.Sprintf("(forall ((k Int)) (! (=> (and (<= 0 k) (< k (slen %s))) (= (select %s k) (sbyte %s k))) :pattern ((select %s k))))", v.T, arr, v.T, arr))
			region := "E." + fc.eng.elemKey(ts.Elem())
			fc.heap.set(region, store(fc.heap.get(region, arr2Sort(sInt)), obj, arr))
			s := sx("mk-slice", obj, "0", sx("slen", v.T), sx("slen", v.T))
			r := scalar(s, sSlice, to)
			fc.allocRefs[x] = r
			return r
		}
	}
	if v.Sort != "" && sortOf(to) == v.Sort {
		v.Typ = to
		return v
	}
	return fc.freshVal("convert", to)
}

// ---------------------------------------------------------------------------
// Return

func (fc *FnCtx) execReturn(x *ssa.Return) {
	fc.retBlocks = append(fc.retBlocks, fc.cur)
	// vacuity: this return must not be provably unreachable from the assumptions made so far
	fc.ordinals["cover:return"]++
	fc.obls = append(fc.obls, &Obligation{Name: fmt.Sprintf("%s/cover:return#%d", fc.name, fc.ordinals["cover:return"]), Fn: fc.name, Kind: "cover", Props: fc.props,
		Goal: not(fc.curReach), NAssume: len(fc.assumes), fc: fc, Expect: "sat", Text: "this return is reachable under the contract (informational: unsat = dead path under the preconditions)"})
	fc.retReach = append(fc.retReach, fc.curReach)
	env := fc.entryEnv()
	env.heap = fc.heap
	env.ghost = fc.ghost
	for i, r := range x.Results {
		if i < len(fc.con.Results) {
			env.vars[fc.con.Results[i]] = fc.valOf(r)
		}
	}
	if len(fc.con.Results) > 0 && len(fc.con.Results) != len(x.Results) {
		panic(bindError{fmt.Sprintf("%s: contract names %d results, function returns %d", fc.name, len(fc.con.Results), len(x.Results))})
	}
	env.inPost = true
	if c, ok := fc.ghost["closedany"]; ok {
		fc.oblige("chan:noclose", "", not(c), nil, "the function has closed no channel that other goroutines send on", x.Pos())
	}
	for i, en := range fc.con.Ensures {
		if fc.con.Trusted != "" && en.Label == "" {
			// trusted contract: the unlabelled postconditions are assumed at call sites, not proved on this body
			// (safety obligations of the body and labelled postconditions are still proved); reported in the trusted base
			fc.trusted["postconditions of "+fc.name+" are assumed, not proved: "+fc.con.Trusted] = true
			continue
		}
		t := fc.evalBool(en.E, env)
		detail := fmt.Sprintf("%d", i+1)
		if en.Label != "" {
			detail = en.Label
		}
		parts := splitGoal(t)
		for j, g := range parts {
			d := detail
			if len(parts) > 1 {
				d = fmt.Sprintf("%s.%d", detail, j+1)
			}
			fc.oblige("post", d, g, en.Props, "ensures "+en.Text, x.Pos())
		}
	}
	if fc.con.HasAssigns && fc.con.Trusted == "" {
		fc.checkFrame(x.Pos())
	}
	// locks must be balanced
	if fc.usesLocks() {
		m := fc.fresh("anymutex", sInt)
		fc.oblige("lock:balanced", "", eq(sel(fc.ghost["held"], m), sel(fc.ghost0["held"], m)), nil, "every mutex locked by this function is unlocked on return (and no other)", x.Pos())
	}
}

func (fc *FnCtx) usesLocks() bool {
	return fc.ghost["held"] != fc.ghost0["held"] || strings.Contains(fc.con.Opts["locks"], "1")
}

// immutableGlobalFacts: a package-level variable that is never written after init and whose initialiser is
// `&T{...}` holds a non-nil pointer (to an object distinct from every other such global).
func (fc *FnCtx) immutableGlobalFacts(g *ssa.Global, region string, elem types.Type) {
	key := "gfact:" + region
	if fc.declared[key] {
		return
	}
	fc.declared[key] = true
	init, ok := fc.eng.globalInit[g]
	if !ok {
		return
	}
	ue, ok := init.(*ast.UnaryExpr)
	if !ok || ue.Op != token.AND {
		return
	}
	cl, ok := ue.X.(*ast.CompositeLit)
	if !ok {
		return
	}
	tv, ok := fc.eng.info.Types[cl]
	if !ok {
		return
	}
	pt := types.NewPointer(tv.Type)
	val := fc.entryHeap.get(region, sortOf(elem))
	ref := qsym("gobj." + g.Name())
	fc.declare(ref, sInt)
	fc.declareFun(qsym("gobjid"), []string{sInt}, sInt)
	fc.assume(and(not(eq(ref, "0")), eq(sx("allocid", ref), "0"), eq(sx("kind", ref), "0"), eq(sx(qsym("gobjid"), ref), num(int64(fc.eng.globalOrdinal(g))))))
	switch sortOf(elem) {
	case sIface:
		fc.assume(eq(val, sx("mk-iface", num(int64(fc.eng.typeIDOf(pt))), ref)))
	case sInt:
		fc.assume(eq(val, ref))
	}
	fc.trusted["package-level variable "+g.Name()+" is never written after init (checked mechanically) and holds the non-nil object of its initialiser"] = true
}
