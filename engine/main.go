package main

import (
	"flag"
	"fmt"
	"os"
	"runtime"
	"sort"
	"strings"
	"time"
)

func main() {
	if len(os.Args) < 2 {
		fmt.Fprintln(os.Stderr, "usage: gvc verify|check|baseline|dump ...")
		os.Exit(2)
	}
	switch os.Args[1] {
	case "verify":
		cmdVerify(os.Args[2:])
	case "check":
		cmdCheck(os.Args[2:])
	case "baseline":
		cmdBaseline(os.Args[2:])
	case "replay":
		cmdReplay(os.Args[2:])
	default:
		fmt.Fprintln(os.Stderr, "unknown command", os.Args[1])
		os.Exit(2)
	}
}

// generateFor builds the obligations of the named functions.
func generateFor(e *Engine, names []string) ([]*FnCtx, []string) {
	var out []*FnCtx
	var errs []string
	for _, n := range names {
		fc, err := e.NewFnCtx(n)
		if err != nil {
			errs = append(errs, err.Error())
			continue
		}
		if fc.con.NoBody {
			continue
		}
		if err := fc.Generate(); err != nil {
			errs = append(errs, fmt.Sprintf("%s: %v", n, err))
			// A clause that no longer binds (a renamed local, a changed loop) stops the generation there. The
			// obligations generated before that point precede it in reverse post-order, so none of them depends
			// on the part that could not be bound: they are kept and decided; the rest stays undecided.
			if _, ok := err.(bindError); ok && len(fc.obls) > 0 {
				fc.partial = true
				out = append(out, fc)
			}
			continue
		}
		errs = append(errs, fc.skippedAts...)
		out = append(out, fc)
	}
	return out, errs
}

func cmdVerify(args []string) {
	fs := flag.NewFlagSet("verify", flag.ExitOnError)
	repo := fs.String("repo", "/repo", "repository")
	funcs := fs.String("func", "", "comma separated function names (default: all with contracts)")
	prop := fs.String("prop", "", "property id")
	keep := fs.String("keep", "", "keep SMT files in this directory")
	timeout := fs.Duration("timeout", 10*time.Second, "solver timeout")
	verbose := fs.Bool("v", false, "verbose")
	only := fs.String("only", "", "only obligations whose name contains this")
	nosolve := fs.Bool("nosolve", false, "generate only")
	doReplay := fs.Bool("replay", false, "try to replay failures")
	fs.Parse(args)
	t0 := time.Now()
	e, err := LoadEngine(*repo, nil)
	if err != nil {
		fmt.Fprintln(os.Stderr, "ENGINE-ERROR load:", err)
		os.Exit(2)
	}
	fmt.Printf("loaded in %.1fs, %d contracts\n", time.Since(t0).Seconds(), len(e.cs.Funcs))
	var names []string
	if *funcs != "" {
		names = strings.Split(*funcs, ",")
	} else {
		names = e.funcsForProp(*prop)
	}
	fcs, errs := generateFor(e, names)
	for _, er := range errs {
		fmt.Println("BIND-ERROR", er)
	}
	var obls []*Obligation
	for _, fc := range fcs {
		for _, o := range fc.obls {
			if *only == "" || strings.Contains(o.Name, *only) {
				obls = append(obls, o)
			}
		}
		for _, n := range fc.notes {
			if *verbose {
				fmt.Println("NOTE", fc.name+":", n)
			}
		}
		for _, n := range fc.unmatchedAts() {
			fmt.Println("UNMATCHED", n)
		}
	}
	fmt.Printf("%d obligations generated in %.1fs\n", len(obls), time.Since(t0).Seconds())
	if *nosolve {
		for _, o := range obls {
			fmt.Println(o.Name)
		}
		return
	}
	cfg := SolverCfg{Timeout: *timeout, Workers: runtime.NumCPU(), KeepSMT: *keep != "", WorkDir: *keep}
	t1 := time.Now()
	Solve(obls, cfg)
	bad := 0
	sort.SliceStable(obls, func(i, j int) bool { return obls[i].Fn < obls[j].Fn })
	for i, o := range obls {
		ok := o.Result == o.Expect || (o.Kind == "vacuity" && o.Result != "unsat") || o.Kind == "cover"
		if !ok {
			bad++
		}
		if !ok || *verbose {
			st := "ok  "
			if !ok {
				st = "FAIL"
			}
			fmt.Printf("%s %-70s %-8s %-7s %.2fs %s  [%s]\n", st, o.Name, o.Result, o.Solver, o.Time, o.Pos, o.Text)
			if !ok && *doReplay {
				tryReplay(e, "/verif", "", o)
				if o.Replay != nil {
					fmt.Printf("     replay confirmed=%v note=%s inputs=%v\n%s\n", o.Replay.Confirmed, o.Replay.Note, o.Replay.Inputs, o.Replay.Output)
				}
			}
			if !ok && *keep != "" {
				_ = i
				fmt.Printf("     smt: %s\n", o.File)
			}
		}
	}
	fmt.Printf("%d/%d discharged, solve %.1fs, total %.1fs\n", len(obls)-bad, len(obls), time.Since(t1).Seconds(), time.Since(t0).Seconds())
	if bad > 0 || len(errs) > 0 {
		os.Exit(1)
	}
}
