package main

import (
	"fmt"
	"os"
	"runtime/debug"
	"go/token"
	"go/types"
	"sort"
	"strings"

	"golang.org/x/tools/go/ssa"
)

// NewFnCtx prepares the verification context of one function.
func (e *Engine) NewFnCtx(name string) (*FnCtx, error) {
	fn := e.funcs[name]
	con := e.cs.Funcs[name]
	if fn == nil {
		return nil, fmt.Errorf("function %s not found in package", name)
	}
	if con == nil {
		con = &FuncContract{Name: name, Loops: map[int]*LoopContract{}, Opts: map[string]string{}}
		for i, p := range fn.Params {
			_ = i
			con.Params = append(con.Params, p.Name())
		}
	}
	fc := &FnCtx{eng: e, fn: fn, name: name, con: con, declared: map[string]bool{}, vals: map[ssa.Value]Val{},
		reach: map[*ssa.BasicBlock]string{}, exitHeap: map[*ssa.BasicBlock]*Heap{}, exitGhost: map[*ssa.BasicBlock]map[string]string{},
		ordinals: map[string]int{}, allocIDs: map[ssa.Value]int{}, unescaped: map[ssa.Value]bool{}, allocRefs: map[ssa.Value]Val{},
		loops: map[*ssa.BasicBlock]*loopInfo{}, backEdge: map[[2]int]bool{}, ghost: map[string]string{}, ghostSort: map[string]string{},
		ghost0: map[string]string{}, subrefSeen: map[string]bool{}, strLits: map[string]string{}, debugRefs: map[types.Object][]*ssa.DebugRef{},
		paramVals: map[string]Val{}, trusted: map[string]bool{}, curLoopPre: map[*ssa.BasicBlock]*Heap{}}
	fc.props = con.Props
	return fc, nil
}

func (fc *FnCtx) baseHeap() *Heap {
	h := &Heap{regs: map[string]string{}}
	h.lazy = func(r, s string) string {
		n := qsym(r + "@0")
		if !fc.declared[n] {
			fc.declare(n, s)
			fc.regionRangeAxiom(r, n)
		}
		return n
	}
	return h
}

var elemRanges = map[string]intKind{"E.u8": {8, false}, "E.uint16": {16, false}, "E.uint32": {32, false}, "E.uint64": {64, false}, "E.int": {64, true}, "E.int64": {64, true}, "E.int32": {32, true}}

// regionRangeAxiom: the elements of integer arrays stay within their type's range in every heap version.
func (fc *FnCtx) regionRangeAxiom(region, name string) {
	k, ok := elemRanges[region]
	if !ok {
		return
	}
	t := sel2(name, "o", "k")
	fc.assume(fmt.Sprintf("(forall ((o Int) (k Int)) (! %s :pattern (%s)))", k.inRange(t), t))
}

// Generate produces all obligations of the function.
func (fc *FnCtx) Generate() (err error) {
	defer func() {
		if r := recover(); r != nil {
			if be, ok := r.(bindError); ok {
				if os.Getenv("GVC_DEBUG") != "" {
					debug.PrintStack()
				}
				err = be
				return
			}
			panic(r)
		}
	}()
	fn := fc.fn
	if len(fn.Blocks) == 0 {
		return fmt.Errorf("%s has no body", fc.name)
	}
	fc.installHeapNamer()
	fc.buildPosText()
	fc.indexDebugRefs()
	fc.analyseCFG()
	fc.analyseEscapes()

	// entry state
	fc.entryHeap = fc.baseHeap()
	fc.heap = fc.entryHeap.clone()
	fc.curReach = "true"
	// parameters
	if len(fc.con.Params) != len(fn.Params) {
		return bindError{fmt.Sprintf("%s: contract lists %d parameters, function has %d", fc.name, len(fc.con.Params), len(fn.Params))}
	}
	for i, p := range fn.Params {
		v := fc.freshVal("p."+p.Name(), p.Type())
		fc.vals[p] = v
		fc.paramVals[fc.con.Params[i]] = v
		fc.assume(fc.typeFacts(v, p.Type()))
		fc.assume(fc.notAllocated(v, p.Type()))
	}
	for _, fv := range fn.FreeVars {
		v := fc.freshVal("fv."+fv.Name(), fv.Type())
		fc.vals[fv] = v
	}
	// ghost variables
	env0 := fc.entryEnv()
	for _, g := range fc.con.Ghosts {
		v := fc.evalExpr(g.Init, env0)
		fc.ghost[g.Name] = v.T
		fc.ghost0[g.Name] = v.T
		fc.ghostSort[g.Name] = smtSortName(g.Sort)
	}
	// allocation clock
	fc.ghostSort["now"] = sInt
	fc.declare("now@0", sInt)
	fc.ghost["now"] = "now@0"
	fc.ghost0["now"] = "now@0"
	// hand-off ghost state: one flag per channel send of a pointer (set at the send, cleared where the sent
	// SSA value is defined), so that a later access through the same value is an access after the hand-off
	fc.sentOf = map[ssa.Value][]string{}
	if fc.con.Opts["lockcheck"] != "" {
		if fc.con.Opts["mayclose"] == "" {
			// "this function closes no channel" is a claim of its own: checked at every return, so that it
			// exists (and is in the baseline) even while the function has no close site at all
			fc.ghostSort["closedany"] = sBool
			fc.ghost["closedany"] = "false"
			fc.ghost0["closedany"] = "false"
		}
		fc.ghostSort["handedobj"] = arrSort(sBool)
		fc.ghost["handedobj"] = "((as const (Array Int Bool)) false)"
		fc.ghost0["handedobj"] = "((as const (Array Int Bool)) false)"
		k := 0
		for _, b := range fc.fn.Blocks {
			for _, in := range b.Instrs {
				if sd, ok := in.(*ssa.Send); ok {
					if _, isPtr := sd.X.Type().Underlying().(*types.Pointer); isPtr {
						if _, isParam := sd.X.(*ssa.Parameter); isParam {
							continue // a parameter stays the caller's business
						}
						k++
						name := fmt.Sprintf("sent.%d", k)
						fc.sentOf[sd.X] = append(fc.sentOf[sd.X], name)
						fc.sentAt = append(fc.sentAt, sentSite{sd, name})
						fc.ghostSort[name] = sBool
						fc.ghost[name] = "false"
						fc.ghost0[name] = "false"
					}
				}
			}
		}
	}
	// lock ghost state
	fc.ghostSort["held"] = arrSort(sBool)
	fc.declare("held@0", arrSort(sBool))
	fc.ghost["held"] = "held@0"
	fc.ghost0["held"] = "held@0"
	// lemmas this function relies on (each proved separately by its own obligations)
	for _, u := range strings.Fields(fc.con.Opts["uses"]) {
		fc.assume(fc.eng.lemmaFormula(fc, u))
	}
	// global facts (assumed; listed in the trusted base)
	for _, f := range fc.eng.cs.Facts {
		func() {
			defer func() { recover() }()
			t := fc.evalBool(f.E, env0)
			fc.assume(t)
			fc.trusted["global fact (assumed): "+f.Text] = true
		}()
	}
	// preconditions
	for _, r := range fc.con.Requires {
		t := fc.evalBool(r.E, env0)
		fc.assume(t)
	}
	nreq := len(fc.assumes)
	// vacuity: the preconditions must be satisfiable
	if len(fc.con.Requires) > 0 {
		o := &Obligation{Name: fc.name + "/vacuity:requires#1", Fn: fc.name, Kind: "vacuity", Props: fc.props, Goal: "false", NAssume: nreq, fc: fc, Expect: "sat", Text: "preconditions are satisfiable"}
		fc.obls = append(fc.obls, o)
	}

	for _, b := range fc.order {
		fc.processBlock(b)
	}
	// vacuity: some exit of the function must be reachable under all the assumptions made (no contradiction)
	if len(fc.retReach) > 0 {
		fc.obls = append(fc.obls, &Obligation{Name: fc.name + "/vacuity:exit#1", Fn: fc.name, Kind: "vacuity", Props: fc.props,
			Goal: not(or(fc.retReach...)), NAssume: len(fc.assumes), fc: fc, Expect: "sat", Text: "some return is reachable under all assumptions (no contradiction)"})
	}
	return nil
}

type bindError struct{ msg string }

func (b bindError) Error() string { return b.msg }

func (fc *FnCtx) indexDebugRefs() {
	for _, b := range fc.fn.Blocks {
		for _, in := range b.Instrs {
			if d, ok := in.(*ssa.DebugRef); ok && d.Object() != nil {
				fc.debugRefs[d.Object()] = append(fc.debugRefs[d.Object()], d)
			}
		}
	}
}

// ---------------------------------------------------------------------------
// CFG analysis: reverse post-order ignoring back edges, natural loops.

func (fc *FnCtx) analyseCFG() {
	fn := fc.fn
	// back edges: target dominates source
	for _, b := range fn.Blocks {
		for _, s := range b.Succs {
			if s.Dominates(b) {
				fc.backEdge[[2]int{b.Index, s.Index}] = true
			}
		}
	}
	// reverse postorder ignoring back edges
	visited := map[*ssa.BasicBlock]bool{}
	var post []*ssa.BasicBlock
	var dfs func(b *ssa.BasicBlock)
	dfs = func(b *ssa.BasicBlock) {
		visited[b] = true
		for i := len(b.Succs) - 1; i >= 0; i-- {
			s := b.Succs[i]
			if fc.backEdge[[2]int{b.Index, s.Index}] || visited[s] {
				continue
			}
			dfs(s)
		}
		post = append(post, b)
	}
	dfs(fn.Blocks[0])
	if fn.Recover != nil && !visited[fn.Recover] {
		// recover block is not reachable through normal edges; ignored
	}
	for i := len(post) - 1; i >= 0; i-- {
		fc.order = append(fc.order, post[i])
	}
	// natural loops
	var headers []*ssa.BasicBlock
	for _, b := range fn.Blocks {
		if !visited[b] {
			continue
		}
		for _, s := range b.Succs {
			if !fc.backEdge[[2]int{b.Index, s.Index}] {
				continue
			}
			li := fc.loops[s]
			if li == nil {
				li = &loopInfo{header: s, body: map[*ssa.BasicBlock]bool{s: true}, modRegs: map[string]bool{}}
				fc.loops[s] = li
				headers = append(headers, s)
			}
			li.latches = append(li.latches, b)
			// body: all blocks that reach b without passing through s
			stack := []*ssa.BasicBlock{b}
			for len(stack) > 0 {
				x := stack[len(stack)-1]
				stack = stack[:len(stack)-1]
				if li.body[x] {
					continue
				}
				li.body[x] = true
				for _, p := range x.Preds {
					stack = append(stack, p)
				}
			}
		}
	}
	sort.Slice(headers, func(i, j int) bool { return fc.loopPos(headers[i]) < fc.loopPos(headers[j]) })
	for i, h := range headers {
		li := fc.loops[h]
		li.ordinal = i + 1
		li.con = fc.con.Loops[i+1]
		fc.loopOrder = append(fc.loopOrder, h)
	}
	for n := range fc.con.Loops {
		if n < 1 || n > len(headers) {
			panic(bindError{fmt.Sprintf("%s: contract names loop %d but the function has %d loops", fc.name, n, len(headers))})
		}
	}
}

// loopPos: source position used to order loops (position of the earliest instruction in the loop).
func (fc *FnCtx) loopPos(h *ssa.BasicBlock) token.Pos {
	li := fc.loops[h]
	var best token.Pos
	for b := range li.body {
		for _, in := range b.Instrs {
			p := in.Pos()
			if d, ok := in.(*ssa.DebugRef); ok {
				p = d.Expr.Pos()
			}
			if p.IsValid() && (best == 0 || p < best) {
				best = p
			}
		}
	}
	return best
}

// ---------------------------------------------------------------------------
// Escape analysis for allocations (flow-insensitive).

func (fc *FnCtx) analyseEscapes() {
	for _, b := range fc.fn.Blocks {
		for _, in := range b.Instrs {
			switch x := in.(type) {
			case *ssa.Alloc:
				fc.nalloc++
				fc.allocIDs[x] = fc.nalloc
				fc.unescaped[x] = !fc.escapes(x, map[ssa.Value]bool{})
			case *ssa.MakeSlice:
				fc.nalloc++
				fc.allocIDs[x] = fc.nalloc
				fc.unescaped[x] = !fc.escapes(x, map[ssa.Value]bool{})
			case *ssa.MakeMap, *ssa.MakeChan:
				fc.nalloc++
				fc.allocIDs[x.(ssa.Value)] = fc.nalloc
				fc.unescaped[x.(ssa.Value)] = !fc.escapes(x.(ssa.Value), map[ssa.Value]bool{})
			case *ssa.Convert:
				if _, ok := x.Type().Underlying().(*types.Slice); ok {
					fc.nalloc++
					fc.allocIDs[x] = fc.nalloc
					fc.unescaped[x] = !fc.escapes(x, map[ssa.Value]bool{})
				}
			case *ssa.Call:
				if con := fc.eng.cs.Funcs[fc.calleeName(x.Common())]; con != nil {
					for _, en := range con.Ensures {
						if strings.Contains(en.Text, "fresh(") {
							fc.nalloc++
							fc.allocIDs[x] = fc.nalloc
							fc.unescaped[x] = false
							break
						}
					}
				}
			}
		}
	}
}

func (fc *FnCtx) escapes(v ssa.Value, seen map[ssa.Value]bool) bool {
	if seen[v] {
		return false
	}
	seen[v] = true
	refs := v.Referrers()
	if refs == nil {
		return true
	}
	for _, r := range *refs {
		switch x := r.(type) {
		case *ssa.Store:
			if x.Val == v {
				// storing the pointer into an unescaped local cell keeps it local only if that cell is a local Alloc
				if a, ok := x.Addr.(*ssa.Alloc); ok && !a.Heap {
					if fc.escapes(a, seen) {
						return true
					}
					continue
				}
				return true
			}
		case *ssa.UnOp, *ssa.DebugRef, *ssa.If, *ssa.BinOp, *ssa.Return:
			if u, ok := r.(*ssa.UnOp); ok && u.Op == token.MUL {
				// load through pointer: if it loads a pointer stored in a local cell, the loaded value aliases
				if _, isPtr := u.Type().Underlying().(*types.Pointer); isPtr {
					// loaded pointer value: conservative only if v is a local cell holding pointers
				}
			}
		case *ssa.FieldAddr, *ssa.IndexAddr, *ssa.Slice, *ssa.ChangeType, *ssa.Field, *ssa.Index:
			if fc.escapes(r.(ssa.Value), seen) {
				return true
			}
		case *ssa.Call:
			if fc.callRetains(x.Common(), v) {
				return true
			}
		case *ssa.Defer:
			if fc.callRetains(x.Common(), v) {
				return true
			}
		case *ssa.Go:
			return true
		case *ssa.Phi, *ssa.MakeInterface, *ssa.MakeClosure, *ssa.Send, *ssa.MapUpdate, *ssa.Convert, *ssa.Extract, *ssa.Select:
			return true
		case *ssa.TypeAssert, *ssa.Lookup, *ssa.Range, *ssa.Next:
		default:
			return true
		}
	}
	return false
}

// callRetains: may the callee keep a reference to argument v after returning?
func (fc *FnCtx) callRetains(c *ssa.CallCommon, v ssa.Value) bool {
	if b, ok := c.Value.(*ssa.Builtin); ok {
		switch b.Name() {
		case "len", "cap", "copy", "print", "println", "delete":
			return false
		case "append":
			return true
		}
		return false
	}
	name := fc.calleeName(c)
	if con := fc.eng.cs.Funcs[name]; con != nil && con.Opts["retains"] == "" {
		return false
	}
	return true
}

// ---------------------------------------------------------------------------
// Block processing

func (fc *FnCtx) edgeCond(p, b *ssa.BasicBlock) string {
	last := p.Instrs[len(p.Instrs)-1]
	if iff, ok := last.(*ssa.If); ok {
		c := fc.valOf(iff.Cond).T
		if p.Succs[0] == b && p.Succs[1] == b {
			return "true"
		}
		if p.Succs[0] == b {
			return c
		}
		return not(c)
	}
	return "true"
}

func (fc *FnCtx) processBlock(b *ssa.BasicBlock) {
	fc.cur = b
	li := fc.loops[b]
	type inEdge struct {
		p    *ssa.BasicBlock
		cond string
		idx  int
	}
	var edges []inEdge
	for i, p := range b.Preds {
		if fc.backEdge[[2]int{p.Index, b.Index}] {
			continue
		}
		if _, done := fc.exitHeap[p]; !done {
			continue // unreachable predecessor (e.g. recover block)
		}
		edges = append(edges, inEdge{p, and(fc.reach[p], fc.edgeCond(p, b)), i})
	}
	if b.Index == 0 {
		fc.reach[b] = "true"
		// heap/ghost already set up
	} else {
		rc := qsym(fmt.Sprintf("reach!b%d", b.Index))
		fc.declare(rc, sBool)
		var cs []string
		for _, e := range edges {
			cs = append(cs, e.cond)
		}
		fc.assume(eq(rc, or(cs...)))
		fc.reach[b] = rc
		// heap merge (lazy)
		if len(edges) == 1 {
			fc.heap = fc.exitHeap[edges[0].p].clone()
		} else {
			bi := b.Index
			eds := edges
			h := &Heap{regs: map[string]string{}}
			h.lazy = func(r, s string) string {
				var ts []string
				same := true
				for _, e := range eds {
					t := fc.exitHeap[e.p].get(r, s)
					ts = append(ts, t)
					if t != ts[0] {
						same = false
					}
				}
				if len(ts) == 0 {
					return fc.entryHeap.get(r, s)
				}
				if same {
					return ts[0]
				}
				c := qsym(fmt.Sprintf("%s@b%d", r, bi))
				fc.declare(c, s)
				for i, e := range eds {
					fc.assume(implies(e.cond, eq(c, ts[i])))
				}
				return c
			}
			fc.heap = h
		}
		// ghost merge (eager)
		g := map[string]string{}
		for name := range fc.ghost0 {
			var ts []string
			same := true
			for _, e := range edges {
				t := fc.exitGhost[e.p][name]
				ts = append(ts, t)
				if t != ts[0] {
					same = false
				}
			}
			if len(ts) == 0 {
				g[name] = fc.ghost0[name]
			} else if same {
				g[name] = ts[0]
			} else {
				c := qsym(fmt.Sprintf("ghost.%s@b%d", name, b.Index))
				fc.declare(c, fc.ghostSort[name])
				for i, e := range edges {
					fc.assume(implies(e.cond, eq(c, ts[i])))
				}
				g[name] = c
			}
		}
		fc.ghost = g
	}
	fc.curReach = fc.reach[b]

	// phis
	for _, in := range b.Instrs {
		phi, ok := in.(*ssa.Phi)
		if !ok {
			break
		}
		var vs []Val
		var conds []string
		for _, e := range edges {
			vs = append(vs, fc.valOf(phi.Edges[e.idx]))
			conds = append(conds, e.cond)
		}
		fc.vals[phi] = fc.mergeVals(fmt.Sprintf("phi.%s.b%d", phi.Comment, b.Index), phi.Type(), vs, conds)
	}

	if li != nil {
		fc.enterLoop(li)
	}
	for _, in := range b.Instrs {
		if phi, ok := in.(*ssa.Phi); ok {
			fc.resetSent(phi)
		}
	}

	for idx, in := range b.Instrs {
		if _, ok := in.(*ssa.Phi); ok {
			continue
		}
		fc.curIdx = idx
		fc.curInstr = in
		fc.exec(in)
		if v, ok := in.(ssa.Value); ok {
			fc.nameVal(v)
			fc.resetSent(v)
		}
	}
	fc.exitHeap[b] = fc.heap
	fc.exitGhost[b] = fc.ghost

	// back edges leaving this block
	for _, s := range b.Succs {
		if fc.backEdge[[2]int{b.Index, s.Index}] {
			fc.closeLoop(fc.loops[s], b)
		}
	}
}

func (fc *FnCtx) mergeVals(name string, typ types.Type, vs []Val, conds []string) Val {
	if len(vs) == 0 {
		return fc.freshVal(name, typ)
	}
	same := true
	for _, v := range vs {
		if !valEqual(v, vs[0]) {
			same = false
		}
	}
	if same {
		return vs[0]
	}
	v0 := vs[0]
	if v0.Sort != "" {
		c := fc.fresh(name, v0.Sort)
		for i, v := range vs {
			fc.assume(implies(conds[i], eq(c, v.T)))
		}
		r := v0
		r.T = c
		r.Typ = typ
		return r
	}
	if v0.Loc != nil {
		// pointer-to-cell phi: supported when regions agree
		ok := true
		for _, v := range vs {
			if v.Loc == nil || v.Loc.Region != v0.Loc.Region || len(v.Loc.Idx) != len(v0.Loc.Idx) {
				ok = false
			}
		}
		if ok {
			l := &Loc{Region: v0.Loc.Region, Sort: v0.Loc.Sort, Typ: v0.Loc.Typ}
			for k := range v0.Loc.Idx {
				c := fc.fresh(name+".idx", sInt)
				for i, v := range vs {
					fc.assume(implies(conds[i], eq(c, v.Loc.Idx[k])))
				}
				l.Idx = append(l.Idx, c)
			}
			return Val{Loc: l, Typ: typ}
		}
		fc.note("unsupported: phi of pointers into different regions (%s); value havocked", name)
		return fc.freshVal(name, typ)
	}
	// aggregate
	r := Val{Typ: typ}
	for k := range v0.Fields {
		var sub []Val
		for _, v := range vs {
			sub = append(sub, v.Fields[k])
		}
		r.Fields = append(r.Fields, fc.mergeVals(fmt.Sprintf("%s.%d", name, k), v0.Fields[k].Typ, sub, conds))
	}
	return r
}

func valEqual(a, b Val) bool {
	if a.Sort != b.Sort || a.T != b.T || len(a.Fields) != len(b.Fields) {
		return false
	}
	if (a.Loc == nil) != (b.Loc == nil) {
		return false
	}
	if a.Loc != nil {
		if a.Loc.Region != b.Loc.Region || strings.Join(a.Loc.Idx, ",") != strings.Join(b.Loc.Idx, ",") {
			return false
		}
	}
	for i := range a.Fields {
		if !valEqual(a.Fields[i], b.Fields[i]) {
			return false
		}
	}
	return true
}

// ---------------------------------------------------------------------------
// Loops

func (fc *FnCtx) enterLoop(li *loopInfo) {
	b := li.header
	li.preHeap = fc.heap
	li.preGhost = fc.ghost
	li.preReach = fc.curReach
	li.prePhi = map[*ssa.Phi]Val{}
	li.havocPhi = map[*ssa.Phi]Val{}
	for _, in := range b.Instrs {
		if phi, ok := in.(*ssa.Phi); ok {
			li.prePhi[phi] = fc.vals[phi]
		} else {
			break
		}
	}
	fc.curLoopPre[b] = li.preHeap
	loopName := fmt.Sprintf("loop%d", li.ordinal)
	// 1. invariant holds on entry
	if li.con != nil {
		env := fc.envAt(b, fc.heap, fc.ghost, nil)
		env.before = li.preHeap
		env.beforeGhost = li.preGhost
		for i, inv := range li.con.Invariants {
			t := fc.evalBool(inv.E, env)
			for j, g := range splitGoal(t) {
				fc.oblige("inv-init", fmt.Sprintf("%s.%d.%d", loopName, i+1, j+1), g, inv.Props, "invariant holds on entry: "+inv.Text, token.NoPos)
			}
		}
	}
	// 2. havoc what the loop modifies
	fc.computeLoopMods(li)
	pre := li.preHeap
	h := &Heap{regs: map[string]string{}}
	ord := li.ordinal
	h.lazy = func(r, s string) string {
		if fc.immutableRegion(r) && !li.unfrozen[r] {
			return pre.get(r, s)
		}
		if li.modAll || li.modRegs[r] {
			c := qsym(fmt.Sprintf("%s@loop%d", r, ord))
			if !fc.declared[c] {
				fc.declare(c, s)
				fc.regionRangeAxiom(r, c)
			}
			return c
		}
		return pre.get(r, s)
	}
	fc.heap = h
	g := map[string]string{}
	for name, t := range fc.ghost {
		if name == "now" {
			c := qsym(fmt.Sprintf("ghost.now@loop%d", ord))
			fc.declare(c, sInt)
			fc.assume(sx(">=", c, t))
			g[name] = c
		} else if li.modRegs["ghost."+name] {
			c := qsym(fmt.Sprintf("ghost.%s@loop%d", name, ord))
			fc.declare(c, fc.ghostSort[name])
			g[name] = c
		} else {
			g[name] = t
		}
	}
	fc.ghost = g
	for _, in := range b.Instrs {
		phi, ok := in.(*ssa.Phi)
		if !ok {
			break
		}
		v := fc.freshVal(fmt.Sprintf("loop%d.%s", ord, phi.Comment), phi.Type())
		fc.assumeHere(fc.typeFacts(v, phi.Type()))
		// whatever reference the variable holds at the head exists already: it is older than later allocations
		fc.assumeHere(fc.bornBefore(v, phi.Type()))
		fc.vals[phi] = v
		li.havocPhi[phi] = v
	}
	// 3. assume the invariant for an arbitrary iteration
	if li.con != nil {
		env := fc.envAt(b, fc.heap, fc.ghost, nil)
		env.before = li.preHeap
		env.beforeGhost = li.preGhost
		for _, inv := range li.con.Invariants {
			fc.assumeHere(fc.evalBool(inv.E, env))
		}
		if li.con.Decreases != nil {
			v := fc.evalExpr(li.con.Decreases.E, env)
			li.decr0 = v.T
		}
	}
}

func (fc *FnCtx) closeLoop(li *loopInfo, latch *ssa.BasicBlock) {
	if li == nil {
		return
	}
	b := li.header
	reach := and(fc.reach[latch], fc.edgeCond(latch, b))
	loopName := fmt.Sprintf("loop%d", li.ordinal)
	if li.con == nil {
		return
	}
	// phi values along this back edge
	override := map[*ssa.Phi]Val{}
	idx := -1
	for i, p := range b.Preds {
		if p == latch {
			idx = i
		}
	}
	for _, in := range b.Instrs {
		phi, ok := in.(*ssa.Phi)
		if !ok {
			break
		}
		override[phi] = fc.valOf(phi.Edges[idx])
	}
	env := fc.envAt(b, fc.exitHeap[latch], fc.exitGhost[latch], override)
	env.before = li.preHeap
	env.beforeGhost = li.preGhost
	saveReach := fc.curReach
	fc.curReach = reach
	for i, inv := range li.con.Invariants {
		t := fc.evalBool(inv.E, env)
		for j, g := range splitGoal(t) {
			o := fc.oblige("inv-pres", fmt.Sprintf("%s.%d.%d", loopName, i+1, j+1), g, inv.Props, "invariant preserved: "+inv.Text, token.NoPos)
			for _, u := range inv.Uses {
				o.Extra = append(o.Extra, fc.eng.lemmaFormula(fc, u))
			}
		}
	}
	if li.con.Decreases != nil {
		v := fc.evalExpr(li.con.Decreases.E, env)
		fc.oblige("dec", loopName, and(sx("<", v.T, li.decr0), sx("<=", "0", li.decr0)), li.con.Decreases.Props, "variant decreases and is bounded: "+li.con.Decreases.Text, token.NoPos)
	}
	fc.curReach = saveReach
}

func (fc *FnCtx) immutableRegion(r string) bool {
	if strings.HasPrefix(r, "K.") {
		return true
	}
	return fc.eng.immutableFieldRegion(r)
}

// computeLoopMods: syntactic over-approximation of the regions a loop body may modify.
func (fc *FnCtx) computeLoopMods(li *loopInfo) {
	e := fc.eng
	addStruct := func(t types.Type) {
		for _, r := range e.regionsOfType(t) {
			li.modRegs[r] = true
		}
	}
	for b := range li.body {
		for _, in := range b.Instrs {
			switch x := in.(type) {
			case *ssa.Store:
				for _, r := range fc.regionsOfAddr(x.Addr) {
					li.modRegs[r] = true
				}
			case *ssa.MapUpdate:
				mt := x.Map.Type().Underlying().(*types.Map)
				li.modRegs[e.mapRegion(mt, "dom")] = true
				li.modRegs[e.mapRegion(mt, "val")] = true
			case *ssa.Alloc:
				addStruct(derefType(x.Type()))
			case *ssa.MakeSlice:
				addStruct(x.Type())
			case *ssa.MakeMap:
				mt := x.Type().Underlying().(*types.Map)
				li.modRegs[e.mapRegion(mt, "dom")] = true
				li.modRegs[e.mapRegion(mt, "val")] = true
			case *ssa.Convert:
				if _, ok := x.Type().Underlying().(*types.Slice); ok {
					addStruct(x.Type())
				}
			case *ssa.Call:
				fc.callMods(x.Common(), li)
			case *ssa.Defer:
				fc.callMods(x.Common(), li)
			case *ssa.Go:
			case *ssa.RunDefers:
				li.modAll = true
			case *ssa.Select, *ssa.Send:
				// blocking points: other goroutines may run; sequential model keeps the heap
			case *ssa.UnOp:
			}
		}
	}
	// ghost assignments attached to anchors inside the loop are conservatively havocked
	for _, at := range fc.con.Ats {
		if at.Kind == "ghost" || at.Kind == "after" {
			// only when the anchor can fire inside this loop
			for b := range li.body {
				for _, in := range b.Instrs {
					if kind, pat, ok := fc.anchorOf(in); ok && anchorMatches(at.Anchor, kind, pat) {
						li.modRegs["ghost."+at.Ghost] = true
					}
				}
			}
		}
	}
	for b := range li.body {
		for _, in := range b.Instrs {
			if c, ok := in.(ssa.CallInstruction); ok {
				n := fc.calleeName(c.Common())
				if n == "(*sync.Mutex).Lock" || n == "(*sync.Mutex).Unlock" {
					li.modRegs["ghost.held"] = true
				}
			}
			for _, st := range fc.sentAt {
				if st.instr == in {
					li.modRegs["ghost."+st.name] = true
				}
			}
			switch x := in.(type) {
			case *ssa.Call:
				if b, ok := x.Call.Value.(*ssa.Builtin); ok && b.Name() == "close" {
					li.modRegs["ghost.closedany"] = true
				}
			case *ssa.Send:
				if _, isPtr := x.X.Type().Underlying().(*types.Pointer); isPtr {
					li.modRegs["ghost.handedobj"] = true
				}
			case *ssa.Select:
				for _, st := range x.States {
					if st.Dir == types.SendOnly {
						li.modRegs["ghost.handedobj"] = true
					}
				}
			}
		}
	}
}

func (fc *FnCtx) callMods(c *ssa.CallCommon, li *loopInfo) {
	e := fc.eng
	if b, ok := c.Value.(*ssa.Builtin); ok {
		switch b.Name() {
		case "copy", "append":
			for _, r := range e.regionsOfType(c.Args[0].Type()) {
				li.modRegs[r] = true
			}
		case "delete":
			mt := c.Args[0].Type().Underlying().(*types.Map)
			li.modRegs[e.mapRegion(mt, "dom")] = true
		}
		return
	}
	name := fc.calleeName(c)
	if special(name) {
		return
	}
	if callee := c.StaticCallee(); callee != nil && callee.Pkg == fc.fn.Pkg {
		for r := range e.writersReachable(callee) {
			if li.unfrozen == nil {
				li.unfrozen = map[string]bool{}
			}
			li.unfrozen[r] = true
			li.modRegs[r] = true
		}
	}
	con := e.cs.Funcs[name]
	if con != nil && con.HasAssigns {
		sig := fc.calleeSig(c)
		tenv := map[string]types.Type{}
		ptypes := sigParamTypes(sig, c)
		for i, p := range con.Params {
			if i < len(ptypes) {
				tenv[p] = ptypes[i]
			}
		}
		for _, a := range con.Assigns {
			rs, all := e.assignRegions(a, tenv)
			if all {
				li.modAll = true
			}
			for _, r := range rs {
				li.modRegs[r] = true
			}
		}
		return
	}
	if fc.isExternCallee(c) {
		// extern default: may write the elements of slice arguments
		for _, a := range c.Args {
			if _, ok := a.Type().Underlying().(*types.Slice); ok {
				for _, r := range e.regionsOfType(a.Type()) {
					li.modRegs[r] = true
				}
			}
		}
		return
	}
	li.modAll = true
}

// regionsOfAddr: regions that a store through this address may touch.
func (fc *FnCtx) regionsOfAddr(addr ssa.Value) []string {
	e := fc.eng
	elem := derefType(addr.Type())
	switch x := addr.(type) {
	case *ssa.FieldAddr:
		st := derefType(x.X.Type())
		s, _ := structOf(st)
		f := s.Field(x.Field)
		if sortOf(f.Type()) != "" {
			return []string{e.fieldRegion(st, f)}
		}
		return e.regionsOfType(f.Type())
	case *ssa.IndexAddr:
		if sortOf(elem) != "" {
			return []string{"E." + e.elemKey(elem)}
		}
		return e.regionsOfType(elem)
	case *ssa.Global:
		if sortOf(elem) != "" {
			return []string{"G." + x.Name()}
		}
		return e.regionsOfType(elem)
	}
	if sortOf(elem) != "" {
		return []string{"C." + e.elemKey(elem)}
	}
	return e.regionsOfType(elem)
}

// regionsOfType: all regions holding the cells of a value of type t (struct fields, nested; slice elements).
func (e *Engine) regionsOfType(t types.Type) []string {
	var out []string
	seen := map[string]bool{}
	var rec func(t types.Type, depth int)
	rec = func(t types.Type, depth int) {
		if depth > 6 {
			return
		}
		switch u := t.Underlying().(type) {
		case *types.Struct:
			for i := 0; i < u.NumFields(); i++ {
				f := u.Field(i)
				if sortOf(f.Type()) != "" {
					r := e.fieldRegion(t, f)
					if !seen[r] {
						seen[r] = true
						out = append(out, r)
					}
				} else {
					rec(f.Type(), depth+1)
				}
			}
		case *types.Slice:
			if sortOf(u.Elem()) != "" {
				r := "E." + e.elemKey(u.Elem())
				if !seen[r] {
					seen[r] = true
					out = append(out, r)
				}
			} else {
				rec(u.Elem(), depth+1)
			}
		case *types.Array:
			if sortOf(u.Elem()) != "" {
				r := "E." + e.elemKey(u.Elem())
				if !seen[r] {
					seen[r] = true
					out = append(out, r)
				}
			} else {
				rec(u.Elem(), depth+1)
			}
		default:
			r := "C." + e.elemKey(t)
			if !seen[r] {
				seen[r] = true
				out = append(out, r)
			}
		}
	}
	rec(t, 0)
	return out
}

func (e *Engine) mapRegion(mt *types.Map, part string) string {
	return "M." + e.elemKey(mt.Key()) + "." + e.elemKey(mt.Elem()) + "." + part
}

// nameVal gives the value of an SSA instruction a named SMT constant when its term is large, so that
// terms stay small and shared (helps e-matching and keeps queries linear in the function size).
func (fc *FnCtx) nameVal(v ssa.Value) {
	val, ok := fc.vals[v]
	if !ok {
		return
	}
	var rec func(val Val, name string) Val
	rec = func(val Val, name string) Val {
		if val.Sort != "" {
			if len(val.T) > 48 && strings.Contains(val.T, "(") {
				c := qsym("v." + name)
				if fc.declared[c] {
					fc.nfresh++
					c = qsym(fmt.Sprintf("v.%s!%d", name, fc.nfresh))
				}
				fc.declare(c, val.Sort)
				fc.assume(eq(c, val.T))
				val.T = c
			}
			return val
		}
		if val.Loc != nil {
			l := *val.Loc
			l.Idx = append([]string{}, val.Loc.Idx...)
			for i, ix := range l.Idx {
				if len(ix) > 48 && strings.Contains(ix, "(") {
					c := qsym(fmt.Sprintf("v.%s.ix%d", name, i))
					if fc.declared[c] {
						fc.nfresh++
						c = qsym(fmt.Sprintf("v.%s.ix%d!%d", name, i, fc.nfresh))
					}
					fc.declare(c, sInt)
					fc.assume(eq(c, ix))
					l.Idx[i] = c
				}
			}
			val.Loc = &l
			return val
		}
		for i := range val.Fields {
			val.Fields[i] = rec(val.Fields[i], fmt.Sprintf("%s.%d", name, i))
		}
		return val
	}
	fc.vals[v] = rec(val, v.Name())
}

func (fc *FnCtx) installHeapNamer() {
	if fc.regionSorts == nil {
		fc.regionSorts = map[string]string{}
	}
	regionSortSink = fc.regionSorts
	heapNamer = func(region, term string) string {
		// sort of the region constant: find from an existing declaration of region@0 is not always possible;
		// derive it from the term's shape instead.
		sort := fc.sortOfRegionTerm(region)
		if sort == "" {
			return term
		}
		fc.nheap++
		c := qsym(fmt.Sprintf("%s@s%d", region, fc.nheap))
		fc.declare(c, sort)
		fc.assume(eq(c, term))
		return c
	}
}

// sortOfRegionTerm: SMT sort of a heap region, from its naming convention and recorded cell sorts.
func (fc *FnCtx) sortOfRegionTerm(region string) string {
	if s, ok := fc.regionSorts[region]; ok {
		return s
	}
	return ""
}

// anchorOf: the anchor kind and pattern text an instruction is matched by.
func (fc *FnCtx) anchorOf(in ssa.Instruction) (string, string, bool) {
	switch x := in.(type) {
	case *ssa.Call:
		n := fc.calleeName(x.Common())
		if n == "(*sync.Mutex).Lock" {
			return "lock", fc.srcText(x.Pos()), true
		}
		if n == "(*sync.Mutex).Unlock" {
			return "unlock", fc.srcText(x.Pos()), true
		}
		return "call", n, true
	case *ssa.Go:
		return "go", fc.calleeName(x.Common()), true
	case *ssa.Send:
		return "send", fc.srcText(x.Pos()), true
	case *ssa.Select:
		return "select", fc.srcText(x.Pos()), true
	case *ssa.MakeSlice:
		return "make", fc.srcText(x.Pos()), true
	case *ssa.MakeChan:
		return "make", fc.srcText(x.Pos()), true
	case *ssa.Next:
		return "next", fc.nextText(x), true
	case *ssa.UnOp:
		if x.Op == token.ARROW {
			return "recv", fc.srcText(x.Pos()), true
		}
	}
	return "", "", false
}
