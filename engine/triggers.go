package main

import (
	"sort"
	"strings"
)

// Automatic trigger selection for contract quantifiers: the innermost applications of
// uninterpreted functions / array reads that mention the bound variables.

type snode struct {
	atom string
	kids []*snode
	text string
}

func parseSexpr(s string) *snode {
	pos := 0
	var parse func() *snode
	skip := func() {
		for pos < len(s) && (s[pos] == ' ' || s[pos] == '\n' || s[pos] == '\t') {
			pos++
		}
	}
	parse = func() *snode {
		skip()
		if pos >= len(s) {
			return nil
		}
		start := pos
		if s[pos] == '(' {
			pos++
			n := &snode{}
			for {
				skip()
				if pos >= len(s) {
					break
				}
				if s[pos] == ')' {
					pos++
					break
				}
				k := parse()
				if k == nil {
					break
				}
				n.kids = append(n.kids, k)
			}
			n.text = s[start:pos]
			return n
		}
		if s[pos] == '|' {
			pos++
			for pos < len(s) && s[pos] != '|' {
				pos++
			}
			pos++
		} else {
			for pos < len(s) && s[pos] != ' ' && s[pos] != ')' && s[pos] != '(' && s[pos] != '\n' {
				pos++
			}
		}
		return &snode{atom: s[start:pos], text: s[start:pos]}
	}
	return parse()
}

func (n *snode) head() string {
	if n.atom != "" || len(n.kids) == 0 {
		return ""
	}
	h := n.kids[0]
	if h.atom != "" {
		return h.atom
	}
	// ((as const ...) x) etc.
	return h.text
}

var nonTriggerHeads = map[string]bool{
	"+": true, "-": true, "*": true, "div": true, "mod": true, "<": true, "<=": true, ">": true, ">=": true, "=": true,
	"and": true, "or": true, "not": true, "=>": true, "ite": true, "forall": true, "exists": true, "!": true, "distinct": true, "store": true,
	"mk-slice": true, "mk-iface": true, "let": true,
}

func (n *snode) vars(bound map[string]bool, out map[string]bool) {
	if n.atom != "" {
		if bound[n.atom] {
			out[n.atom] = true
		}
		return
	}
	for _, k := range n.kids {
		k.vars(bound, out)
	}
}

// mentionsAny: does the term mention any of the given atoms?
func (n *snode) mentionsAny(set map[string]bool) bool {
	if n.atom != "" {
		return set[n.atom]
	}
	for _, k := range n.kids {
		if k.mentionsAny(set) {
			return true
		}
	}
	return false
}

// autoTriggers returns pattern alternatives (each a list of terms) for a quantifier body.
func autoTriggers(body string, boundNames []string) [][]string {
	root := parseSexpr(body)
	if root == nil {
		return nil
	}
	bound := map[string]bool{}
	for _, b := range boundNames {
		bound[b] = true
	}
	type cand struct {
		text string
		vs   map[string]bool
	}
	var cands []cand
	seen := map[string]bool{}
	// inner-bound variables (of nested quantifiers) must not occur in outer patterns
	var walk func(n *snode, inner map[string]bool) bool // returns true if subtree contains a candidate
	walk = func(n *snode, inner map[string]bool) bool {
		if n.atom != "" {
			return false
		}
		h := n.head()
		if h == "forall" || h == "exists" {
			in2 := map[string]bool{}
			for k := range inner {
				in2[k] = true
			}
			if len(n.kids) >= 3 {
				for _, d := range n.kids[1].kids {
					if len(d.kids) > 0 {
						in2[d.kids[0].atom] = true
					}
				}
				return walk(n.kids[2], in2)
			}
			return false
		}
		if h == "!" {
			if len(n.kids) >= 2 {
				return walk(n.kids[1], inner)
			}
			return false
		}
		sub := false
		for i, k := range n.kids {
			if i == 0 && k.atom != "" {
				continue
			}
			if walk(k, inner) {
				sub = true
			}
		}
		if nonTriggerHeads[h] || h == "" {
			return sub
		}
		vs := map[string]bool{}
		n.vars(bound, vs)
		if len(vs) == 0 || n.mentionsAny(inner) {
			return sub
		}
		if sub {
			// an inner candidate exists; prefer innermost terms, but keep this one if it adds variables
			add := false
			for v := range vs {
				covered := false
				for _, c := range cands {
					if c.vs[v] && strings.Contains(n.text, c.text) {
						covered = true
					}
				}
				if !covered {
					add = true
				}
			}
			if !add {
				return true
			}
		}
		if !seen[n.text] {
			seen[n.text] = true
			cands = append(cands, cand{n.text, vs})
		}
		return true
	}
	walk(root, map[string]bool{})
	var out [][]string
	var partial []cand
	for _, c := range cands {
		if len(c.vs) == len(bound) {
			out = append(out, []string{c.text})
		} else {
			partial = append(partial, c)
		}
	}
	if len(out) == 0 && len(partial) > 0 {
		// build one multi-pattern that covers all variables greedily
		sort.SliceStable(partial, func(i, j int) bool { return len(partial[i].vs) > len(partial[j].vs) })
		covered := map[string]bool{}
		var multi []string
		for _, c := range partial {
			adds := false
			for v := range c.vs {
				if !covered[v] {
					adds = true
				}
			}
			if adds {
				multi = append(multi, c.text)
				for v := range c.vs {
					covered[v] = true
				}
			}
		}
		if len(covered) == len(bound) {
			out = append(out, multi)
		}
	}
	if len(out) > 4 {
		out = out[:4]
	}
	return out
}
