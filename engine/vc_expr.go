package main

import (
	"fmt"
	"os"
	"go/constant"
	"go/token"
	"go/types"
	"math/big"
	"regexp"
	"sort"
	"strings"

	"golang.org/x/tools/go/ssa"
)

// Env is the evaluation environment of a contract expression.
type Env struct {
	fc          *FnCtx
	heap        *Heap
	old         *Heap
	before      *Heap
	ghost       map[string]string
	oldGhost    map[string]string
	beforeGhost map[string]string
	vars        map[string]Val
	oldvars     map[string]Val
	bound       map[string]Val
	resolve     func(name string, h *Heap) (Val, bool)
	inPost      bool
	callSite    ssa.Value
}

func (fc *FnCtx) entryEnv() *Env {
	env := &Env{fc: fc, heap: fc.entryHeap, old: fc.entryHeap, ghost: fc.ghost0, oldGhost: fc.ghost0, vars: map[string]Val{}, oldvars: map[string]Val{}}
	for k, v := range fc.paramVals {
		env.vars[k] = v
		env.oldvars[k] = v
	}
	return env
}

// envAt: environment at the start of block b (after its phis), locals resolved through debug info.
func (fc *FnCtx) envAt(b *ssa.BasicBlock, h *Heap, ghost map[string]string, override map[*ssa.Phi]Val) *Env {
	env := &Env{fc: fc, heap: h, old: fc.entryHeap, ghost: ghost, oldGhost: fc.ghost0, vars: map[string]Val{}, oldvars: map[string]Val{}}
	for k, v := range fc.paramVals {
		env.oldvars[k] = v
	}
	nphi := 0
	for _, in := range b.Instrs {
		if _, ok := in.(*ssa.Phi); ok {
			nphi++
		} else {
			break
		}
	}
	pos := fc.blockPos(b)
	env.resolve = func(name string, hh *Heap) (Val, bool) {
		return fc.resolveLocal(name, b, nphi, override, hh, pos)
	}
	return env
}

func (fc *FnCtx) envAtInstr(b *ssa.BasicBlock, idx int, pos token.Pos) *Env {
	env := &Env{fc: fc, heap: fc.heap, old: fc.entryHeap, ghost: fc.ghost, oldGhost: fc.ghost0, vars: map[string]Val{}, oldvars: map[string]Val{}}
	for k, v := range fc.paramVals {
		env.oldvars[k] = v
	}
	if !pos.IsValid() {
		pos = fc.blockPos(b)
	}
	env.resolve = func(name string, hh *Heap) (Val, bool) {
		return fc.resolveLocal(name, b, idx, nil, hh, pos)
	}
	return env
}

func (fc *FnCtx) blockPos(b *ssa.BasicBlock) token.Pos {
	if li := fc.loops[b]; li != nil {
		return fc.loopPos(b)
	}
	for _, in := range b.Instrs {
		p := in.Pos()
		if d, ok := in.(*ssa.DebugRef); ok {
			p = d.Expr.Pos()
		}
		if p.IsValid() {
			return p
		}
	}
	return fc.fn.Pos()
}

// resolveLocal finds the current value of source variable `name` at instruction index upto of block b.
func (fc *FnCtx) resolveLocal(name string, b *ssa.BasicBlock, upto int, override map[*ssa.Phi]Val, h *Heap, pos token.Pos) (Val, bool) {
	// which object does the name denote at this position?
	var target types.Object
	// candidates: the function's own variables of that name (from debug info); with shadowing, the closest
	// declaration before pos whose scope contains pos
	for obj := range fc.debugRefs {
		if obj.Name() != name {
			continue
		}
		if pos.IsValid() && obj.Parent() != nil && !obj.Parent().Contains(pos) {
			continue
		}
		if pos.IsValid() && obj.Pos() > pos {
			continue
		}
		if target == nil || obj.Pos() > target.Pos() {
			target = obj
		}
	}
	if target == nil && pos.IsValid() {
		if sc := fc.eng.tpkg.Scope().Innermost(pos); sc != nil {
			_, target = sc.LookupParent(name, pos)
		}
	}
	if os.Getenv("GVC_DEBUG") != "" {
		fmt.Fprintf(os.Stderr, "resolveLocal %s at %v: target=%v\n", name, fc.eng.fset.Position(pos), target)
	}
	if target != nil {
		if _, isVar := target.(*types.Var); !isVar {
			return Val{}, false
		}
		if target.Parent() == fc.eng.tpkg.Scope() {
			return Val{}, false // package-level: handled by caller
		}
	}
	match := func(o types.Object) bool {
		if o == nil || o.Name() != name {
			return false
		}
		return target == nil || o == target
	}
	fromRef := func(d *ssa.DebugRef) Val {
		if d.IsAddr {
			p := fc.valOf(d.X)
			return fc.loadVal(h, p, derefType(d.X.Type()))
		}
		return fc.valOf(d.X)
	}
	blk := b
	limit := upto
	for blk != nil {
		for i := limit - 1; i >= 0 && i < len(blk.Instrs); i-- {
			switch x := blk.Instrs[i].(type) {
			case *ssa.DebugRef:
				if match(x.Object()) {
					if _, defined := fc.vals[x.X]; defined || isLeafValue(x.X) {
						return fromRef(x), true
					}
				}
			case *ssa.Phi:
				if x.Comment == name {
					if override != nil {
						if v, ok := override[x]; ok {
							return v, true
						}
					}
					if v, ok := fc.vals[x]; ok {
						return v, true
					}
				}
			}
		}
		blk = blk.Idom()
		if blk != nil {
			limit = len(blk.Instrs)
		}
	}
	for _, p := range fc.fn.Params {
		if p.Name() == name && (target == nil || p.Object() == target) {
			return fc.vals[p], true
		}
	}
	return Val{}, false
}

func isLeafValue(v ssa.Value) bool {
	switch v.(type) {
	case *ssa.Const, *ssa.Global, *ssa.Parameter, *ssa.Function, *ssa.FreeVar:
		return true
	}
	return false
}

// ---------------------------------------------------------------------------
// Field lookup through embedded structs

func (e *Engine) fieldPath(t types.Type, name string) ([]*types.Var, types.Type) {
	if t == nil {
		return nil, nil
	}
	obj, index, _ := types.LookupFieldOrMethod(t, true, e.tpkg, name)
	v, ok := obj.(*types.Var)
	if !ok || v == nil {
		return nil, nil
	}
	var path []*types.Var
	cur := derefType(t)
	for _, i := range index {
		s, ok := structOf(cur)
		if !ok {
			// pointer to embedded struct
			cur = derefType(cur)
			s, ok = structOf(cur)
			if !ok {
				return nil, nil
			}
		}
		f := s.Field(i)
		path = append(path, f)
		cur = f.Type()
	}
	return path, v.Type()
}

// ---------------------------------------------------------------------------
// Evaluation

func (fc *FnCtx) evalBool(e *Expr, env *Env) string {
	v := fc.evalExpr(e, env)
	if v.Sort != sBool {
		panic(bindError{fmt.Sprintf("%s: expression %s is not boolean", fc.name, e.String())})
	}
	return v.T
}

func mathInt(t string) Val { return Val{T: t, Sort: sInt, Math: true} }
func boolVal(t string) Val { return Val{T: t, Sort: sBool} }

func (fc *FnCtx) evalExpr(e *Expr, env *Env) Val {
	switch e.Op {
	case "num":
		return mathInt(bignum(e.Num))
	case "str":
		return fc.strLit(e.Str)
	case "true", "false":
		return boolVal(e.Op)
	case "nil":
		return Val{T: "nil", Sort: "nil"}
	case "ident":
		return fc.evalIdent(e.Name, env)
	case "not":
		return boolVal(not(fc.evalBool(e.Args[0], env)))
	case "neg":
		return mathInt(sx("-", fc.evalExpr(e.Args[0], env).T))
	case "bin":
		return fc.evalBin(e, env)
	case "forall", "exists":
		inner := *env
		inner.bound = map[string]Val{}
		for k, v := range env.bound {
			inner.bound[k] = v
		}
		var decls []string
		for _, q := range e.Vars {
			sort := sInt
			switch q.Sort {
			case "bool":
				sort = sBool
			case "slice":
				sort = sSlice
			case "iface":
				sort = sIface
			case "arr":
				sort = arrSort(sInt)
			}
			nm := qsym("q." + q.Name)
			if q.Sort == "str" {
				inner.bound[q.Name] = Val{T: nm, Sort: sInt, IsStr: true}
				decls = append(decls, fmt.Sprintf("(%s %s)", nm, sort))
				continue
			}
			bv := Val{T: nm, Sort: sort, Math: sort == sInt}
			switch q.Sort {
			case "int", "bool", "slice", "iface", "arr":
			default:
				// a named struct type of the package: the variable ranges over references to it (`forall q Req ::`)
				if tn, ok := fc.eng.tpkg.Scope().Lookup(q.Sort).(*types.TypeName); ok {
					bv = Val{T: nm, Sort: sInt, Typ: types.NewPointer(tn.Type())}
				}
			}
			inner.bound[q.Name] = bv
			decls = append(decls, fmt.Sprintf("(%s %s)", nm, sort))
		}
		// absolute-index discipline: if a bound integer is used directly as the index of a slice that does not
		// depend on bound variables, quantify over the absolute element index instead (robust triggers).
		if len(e.Trig) == 0 {
			for _, q := range e.Vars {
				if q.Sort != "int" {
					continue
				}
				if base := findDirectIndex(e.Args[0], q.Name, e.Vars); base != nil {
					var sv Val
					func() {
						defer func() {
							if r := recover(); r != nil {
								sv = Val{}
							}
						}()
						sv = fc.evalExpr(base, &inner)
					}()
					if sv.Sort == sSlice {
						nm := inner.bound[q.Name].T
						inner.bound[q.Name] = Val{T: sx("-", nm, sx("s-off", sv.T)), Sort: sInt, Math: true}
					}
				}
			}
		}
		body := fc.evalBool(e.Args[0], &inner)
		if len(e.Trig) > 0 {
			var pats []string
			for _, tr := range e.Trig {
				var ts []string
				for _, t := range tr {
					ts = append(ts, fc.evalExpr(t, &inner).T)
				}
				pats = append(pats, ":pattern ("+strings.Join(ts, " ")+")")
			}
			body = "(! " + body + " " + strings.Join(pats, " ") + ")"
		} else {
			var names []string
			for _, q := range e.Vars {
				names = append(names, qsym("q."+q.Name))
			}
			if alts := autoTriggers(body, names); len(alts) > 0 {
				var pats []string
				for _, a := range alts {
					pats = append(pats, ":pattern ("+strings.Join(a, " ")+")")
				}
				body = "(! " + body + " " + strings.Join(pats, " ") + ")"
			}
		}
		return boolVal(fmt.Sprintf("(%s (%s) %s)", e.Op, strings.Join(decls, " "), body))
	case "sel":
		return fc.evalSel(e, env)
	case "index":
		return fc.evalIndex(e, env)
	case "slice":
		s := fc.evalExpr(e.Args[0], env)
		lo := "0"
		if e.Args[1] != nil {
			lo = fc.evalExpr(e.Args[1], env).T
		}
		if s.IsStr {
			panic(bindError{"substring expressions are not supported in contracts: " + e.String()})
		}
		if s.Sort != sSlice {
			panic(bindError{"slice expression on non-slice: " + e.String()})
		}
		hi := sx("s-len", s.T)
		if e.Args[2] != nil {
			hi = fc.evalExpr(e.Args[2], env).T
		}
		return Val{T: sx("mk-slice", sx("s-obj", s.T), add(sx("s-off", s.T), lo), sub(hi, lo), sub(sx("s-cap", s.T), lo)), Sort: sSlice, Typ: s.Typ}
	case "call":
		return fc.evalCall(e, env)
	}
	panic(bindError{"cannot evaluate " + e.String()})
}

func (fc *FnCtx) evalIdent(name string, env *Env) Val {
	if v, ok := env.bound[name]; ok {
		return v
	}
	if v, ok := env.vars[name]; ok {
		return v
	}
	if t, ok := env.ghost[name]; ok {
		s := fc.ghostSort[name]
		return Val{T: t, Sort: s, Math: s == sInt}
	}
	if env.resolve != nil {
		if v, ok := env.resolve(name, env.heap); ok {
			return v
		}
	}
	if v, ok := env.oldvars[name]; ok {
		return v
	}
	// package level
	if obj := fc.eng.tpkg.Scope().Lookup(name); obj != nil {
		switch o := obj.(type) {
		case *types.Const:
			switch o.Val().Kind() {
			case constant.Int:
				bi, _ := new(big.Int).SetString(o.Val().ExactString(), 10)
				return Val{T: bignum(bi), Sort: sInt, Typ: o.Type(), Math: true}
			case constant.Bool:
				if constant.BoolVal(o.Val()) {
					return boolVal("true")
				}
				return boolVal("false")
			case constant.String:
				return fc.strLit(constant.StringVal(o.Val()))
			}
		case *types.Var:
			if g, ok := fc.eng.pkg.Members[name].(*ssa.Global); ok {
				p := fc.globalAddr(g)
				return fc.loadVal(env.heap, p, derefType(g.Type()))
			}
		}
	}
	if c, ok := fc.eng.cs.Consts[name]; ok {
		return mathInt(c)
	}
	panic(bindError{fmt.Sprintf("%s: unknown name %q in contract", fc.name, name)})
}

func (fc *FnCtx) evalSel(e *Expr, env *Env) Val {
	// qualified package constant, e.g. os.O_TRUNC
	if e.Args[0].Op == "ident" {
		if _, isVar := env.vars[e.Args[0].Name]; !isVar {
			for _, imp := range fc.eng.tpkg.Imports() {
				if imp.Name() == e.Args[0].Name {
					if c, ok := imp.Scope().Lookup(e.Name).(*types.Const); ok && c.Val().Kind() == constant.Int {
						bi, _ := new(big.Int).SetString(c.Val().ExactString(), 10)
						return Val{T: bignum(bi), Sort: sInt, Typ: c.Type(), Math: true}
					}
					if v, ok := imp.Scope().Lookup(e.Name).(*types.Var); ok && sortOf(v.Type()) != "" {
						l := &Loc{Region: "K.G." + imp.Name() + "." + e.Name, Sort: sortOf(v.Type()), Typ: v.Type()}
						r := fc.loadLoc(env.heap, l)
						r.Typ = v.Type()
						return r
					}
				}
			}
		}
	}
	base := fc.evalExpr(e.Args[0], env)
	if base.Typ == nil {
		panic(bindError{fmt.Sprintf("%s: cannot select .%s from untyped %s", fc.name, e.Name, e.Args[0].String())})
	}
	path, _ := fc.eng.fieldPath(base.Typ, e.Name)
	if path == nil {
		panic(bindError{fmt.Sprintf("%s: type %v has no field %s", fc.name, base.Typ, e.Name)})
	}
	cur := base
	t := derefType(base.Typ)
	for _, f := range path {
		if cur.Sort == "" && cur.Loc == nil {
			// struct value
			idx := fieldIndex(t, f)
			cur = cur.Fields[idx]
			cur.Typ = f.Type()
			t = f.Type()
			continue
		}
		// pointer to struct (possibly pointer-typed field that must be loaded first)
		if _, isPtr := t.Underlying().(*types.Pointer); isPtr {
			t = derefType(t)
		}
		fa := fc.fieldAddr(t, f, cur.T)
		if fa.Loc != nil {
			cur = fc.loadLoc(env.heap, fa.Loc)
			cur.Typ = f.Type()
			fc.assumeWF(cur, f.Type())
			fc.assumeBorn(cur, f.Type(), env)
		} else {
			cur = fa // reference to embedded struct, typed *T
		}
		t = f.Type()
	}
	return cur
}

func (fc *FnCtx) evalIndex(e *Expr, env *Env) Val {
	base := fc.evalExpr(e.Args[0], env)
	idx := fc.evalExpr(e.Args[1], env)
	if base.IsStr {
		return mathInt(sx("sbyte", base.T, idx.T))
	}
	if base.Sort == arrSort(sInt) {
		return mathInt(sel(base.T, idx.T))
	}
	if base.Typ == nil {
		if base.Sort == sSlice {
			// untyped slice: bytes
			mem := env.heap.get("E.u8", arr2Sort(sInt))
			return mathInt(sel2(mem, sx("s-obj", base.T), add(sx("s-off", base.T), idx.T)))
		}
		panic(bindError{"index of untyped value " + e.String()})
	}
	switch bt := base.Typ.Underlying().(type) {
	case *types.Slice:
		p := fc.sliceElemAddr(base, bt.Elem(), idx.T)
		if p.Loc != nil {
			v := fc.loadLoc(env.heap, p.Loc)
			v.Typ = bt.Elem()
			return v
		}
		return p
	case *types.Map:
		dom := env.heap.get(fc.eng.mapRegion(bt, "dom"), arr2Sort(sBool))
		vs := sortOf(bt.Elem())
		val := env.heap.get(fc.eng.mapRegion(bt, "val"), arr2Sort(vs))
		present := and(not(eq(base.T, "0")), sel2(dom, base.T, idx.T))
		return Val{T: ite(present, sel2(val, base.T, idx.T), zeroOf(vs)), Sort: vs, Typ: bt.Elem()}
	}
	panic(bindError{"unsupported index expression " + e.String()})
}

func (fc *FnCtx) evalBin(e *Expr, env *Env) Val {
	op := e.Name
	switch op {
	case "&&":
		return boolVal(and(fc.evalBool(e.Args[0], env), fc.evalBool(e.Args[1], env)))
	case "||":
		return boolVal(or(fc.evalBool(e.Args[0], env), fc.evalBool(e.Args[1], env)))
	case "==>":
		return boolVal(implies(fc.evalBool(e.Args[0], env), fc.evalBool(e.Args[1], env)))
	case "<==>":
		return boolVal(eq(fc.evalBool(e.Args[0], env), fc.evalBool(e.Args[1], env)))
	}
	a := fc.evalExpr(e.Args[0], env)
	b := fc.evalExpr(e.Args[1], env)
	switch op {
	case "==", "!=":
		var t string
		switch {
		case a.Sort == "nil" && b.Sort == "nil":
			t = "true"
		case a.Sort == "nil":
			t = nilTest(b)
		case b.Sort == "nil":
			t = nilTest(a)
		case a.Sort == "" || b.Sort == "":
			t = fc.structEq(a, b)
		default:
			if a.Sort != b.Sort {
				panic(bindError{fmt.Sprintf("%s: comparing %s with %s in %s", fc.name, a.Sort, b.Sort, e.String())})
			}
			t = eq(a.T, b.T)
		}
		if op == "!=" {
			t = not(t)
		}
		return boolVal(t)
	case "<", "<=", ">", ">=":
		return boolVal(sx(op, a.T, b.T))
	case "+":
		return mathInt(sx("+", a.T, b.T))
	case "-":
		return mathInt(sx("-", a.T, b.T))
	case "*":
		return mathInt(sx("*", a.T, b.T))
	case "/":
		return mathInt(sx("div", a.T, b.T))
	case "%":
		return mathInt(sx("mod", a.T, b.T))
	case "&":
		if c := exprConst(e.Args[1], fc, env); c != nil {
			return mathInt(andMask(a.T, c))
		}
		if c := exprConst(e.Args[0], fc, env); c != nil {
			return mathInt(andMask(b.T, c))
		}
		return mathInt(sx("band", a.T, b.T))
	case "|":
		if c := exprConst(e.Args[1], fc, env); c != nil {
			return mathInt(sx("+", sx("-", a.T, andMask(a.T, c)), bignum(c)))
		}
		if c := exprConst(e.Args[0], fc, env); c != nil {
			return mathInt(sx("+", sx("-", b.T, andMask(b.T, c)), bignum(c)))
		}
		return mathInt(sx("bor", a.T, b.T))
	case "&^":
		if c := exprConst(e.Args[1], fc, env); c != nil {
			return mathInt(sx("-", a.T, andMask(a.T, c)))
		}
	case "<<":
		if c := exprConst(e.Args[1], fc, env); c != nil && c.IsInt64() {
			return mathInt(sx("*", a.T, bignum(pow2(uint(c.Int64())))))
		}
	case ">>":
		if c := exprConst(e.Args[1], fc, env); c != nil && c.IsInt64() {
			return mathInt(sx("div", a.T, bignum(pow2(uint(c.Int64())))))
		}
	}
	panic(bindError{"unsupported operator in " + e.String()})
}

func nilTest(v Val) string {
	switch v.Sort {
	case sSlice:
		return eq(sx("s-obj", v.T), "0")
	case sIface:
		return eq(v.T, zeroOf(sIface))
	case sInt:
		return eq(v.T, "0")
	}
	panic(bindError{"nil comparison on unsupported value"})
}

func exprConst(e *Expr, fc *FnCtx, env *Env) *big.Int {
	switch e.Op {
	case "num":
		return e.Num
	case "ident", "sel", "bin", "call":
		if e.Op == "call" && (len(e.Args) != 0 || fc.eng.cs.Macros[e.Name] == nil) {
			return nil
		}
		if e.Op == "ident" {
			if _, ok := env.bound[e.Name]; ok {
				return nil
			}
			if _, ok := env.vars[e.Name]; ok {
				return nil
			}
		}
		var v Val
		func() {
			defer func() { recover() }()
			v = fc.evalExpr(e, env)
		}()
		if v.Sort == sInt && v.T != "" {
			if bi, ok := new(big.Int).SetString(v.T, 10); ok {
				return bi
			}
		}
	}
	return nil
}

func (fc *FnCtx) mutexOf(v Val) string {
	if v.Typ == nil {
		panic(bindError{"held(): untyped argument"})
	}
	t := derefType(v.Typ)
	if types.TypeString(t, nil) == "sync.Mutex" {
		return v.T
	}
	s, ok := structOf(t)
	if ok {
		for i := 0; i < s.NumFields(); i++ {
			f := s.Field(i)
			if f.Embedded() && types.TypeString(f.Type(), nil) == "sync.Mutex" {
				return fc.subRef(t, f, v.T)
			}
		}
	}
	panic(bindError{fmt.Sprintf("held(): %v has no embedded sync.Mutex", t)})
}

func (fc *FnCtx) evalCall(e *Expr, env *Env) Val {
	args := func() []Val {
		var vs []Val
		for _, a := range e.Args {
			vs = append(vs, fc.evalExpr(a, env))
		}
		return vs
	}
	byteAt := func(h *Heap, s Val, off string) string {
		mem := h.get("E.u8", arr2Sort(sInt))
		return sel2(mem, sx("s-obj", s.T), add(sx("s-off", s.T), off))
	}
	le := func(n int) Val {
		a := args()
		if a[0].Sort != sSlice {
			panic(bindError{e.Name + ": first argument must be a byte slice"})
		}
		var parts []string
		for i := 0; i < n; i++ {
			b := byteAt(env.heap, a[0], add(a[1].T, num(int64(i))))
			if i == 0 {
				parts = append(parts, b)
			} else {
				parts = append(parts, sx("*", bignum(pow2(uint(8*i))), b))
			}
		}
		if n == 1 {
			return mathInt(parts[0])
		}
		return mathInt(sx("+", parts...))
	}
	switch e.Name {
	case "old":
		o := *env
		o.heap = env.old
		o.ghost = env.oldGhost
		if env.inPost || env.resolve != nil {
			o.vars = map[string]Val{}
			for k, v := range env.vars {
				o.vars[k] = v
			}
			for k, v := range env.oldvars {
				o.vars[k] = v
			}
			o.resolve = nil
		}
		return fc.evalExpr(e.Args[0], &o)
	case "before":
		if env.before == nil {
			panic(bindError{"before() outside a loop invariant"})
		}
		o := *env
		o.heap = env.before
		o.ghost = env.beforeGhost
		return fc.evalExpr(e.Args[0], &o)
	case "len":
		a := args()[0]
		switch {
		case a.IsStr:
			return mathInt(sx("slen", a.T))
		case a.Sort == sSlice:
			return mathInt(sx("s-len", a.T))
		case a.Typ != nil:
			if _, ok := a.Typ.Underlying().(*types.Map); ok {
				return mathInt(sx("maplen", a.T))
			}
		}
		panic(bindError{"len of unsupported value " + e.String()})
	case "cap":
		a := args()[0]
		return mathInt(sx("s-cap", a.T))
	case "obj":
		return mathInt(sx("s-obj", args()[0].T))
	case "off":
		return mathInt(sx("s-off", args()[0].T))
	case "u8":
		return le(1)
	case "u16le":
		return le(2)
	case "u32le":
		return le(4)
	case "u64le":
		return le(8)
	case "streq":
		// streq(s, b, o): the bytes of string s are b[o : o+len(s)]
		a := args()
		k := "q.k"
		fc.nfresh++
		k = qsym(fmt.Sprintf("q.k%d", fc.nfresh))
		return boolVal(fmt.Sprintf("(forall ((%s Int)) (! (=> (and (<= 0 %s) (< %s (slen %s))) (= (sbyte %s %s) %s)) :pattern ((sbyte %s %s))))",
			k, k, k, a[0].T, a[0].T, k, byteAt(env.heap, a[1], add(a[2].T, k)), a[0].T, k))
	case "strsame":
		// extensional equality of two strings
		a := args()
		fc.nfresh++
		k := qsym(fmt.Sprintf("q.k%d", fc.nfresh))
		return boolVal(and(eq(sx("slen", a[0].T), sx("slen", a[1].T)),
			fmt.Sprintf("(forall ((%s Int)) (! (=> (and (<= 0 %s) (< %s (slen %s))) (= (sbyte %s %s) (sbyte %s %s))) :pattern ((sbyte %s %s))))", k, k, k, a[0].T, a[0].T, k, a[1].T, k, a[0].T, k)))
	case "byteseq", "byteseqold":
		// byteseq(a, ao, b, bo, n): a[ao+k] == b[bo+k] for 0 <= k < n (byteseqold: b read in the old state);
		// quantified over the absolute index j of a's underlying object.
		a := args()
		fc.nfresh++
		j := qsym(fmt.Sprintf("q.j%d", fc.nfresh))
		hb := env.heap
		if e.Name == "byteseqold" {
			hb = env.old
		}
		memA := env.heap.get("E.u8", arr2Sort(sInt))
		memB := hb.get("E.u8", arr2Sort(sInt))
		lo := add(sx("s-off", a[0].T), a[1].T)
		lhs := sel2(memA, sx("s-obj", a[0].T), j)
		rhs := sel2(memB, sx("s-obj", a[2].T), sx("+", add(sx("s-off", a[2].T), a[3].T), sx("-", j, lo)))
		return boolVal(fmt.Sprintf("(forall ((%s Int)) (! (=> (and (<= %s %s) (< %s (+ %s %s))) (= %s %s)) :pattern (%s)))", j, lo, j, j, lo, a[4].T, lhs, rhs, lhs))
	case "bytes_unchanged":
		// bytes_unchanged(b, lo, hi): b[k] == old(b[k]) for lo <= k < hi (absolute index form)
		a := args()
		fc.nfresh++
		j := qsym(fmt.Sprintf("q.j%d", fc.nfresh))
		mem := env.heap.get("E.u8", arr2Sort(sInt))
		mem0 := env.old.get("E.u8", arr2Sort(sInt))
		off := sx("s-off", a[0].T)
		lhs := sel2(mem, sx("s-obj", a[0].T), j)
		return boolVal(fmt.Sprintf("(forall ((%s Int)) (! (=> (and (<= %s %s) (< %s %s)) (= %s %s)) :pattern (%s)))", j, add(off, a[1].T), j, j, add(off, a[2].T), lhs, sel2(mem0, sx("s-obj", a[0].T), j), lhs))
	case "others_unchanged":
		// others_unchanged(s): every object of s's element region other than s's own object is as in the old state
		a := args()[0]
		st, ok := a.Typ.Underlying().(*types.Slice)
		if !ok {
			panic(bindError{"others_unchanged: slice expected"})
		}
		if sortOf(st.Elem()) == "" {
			// struct elements: every cell that is not a (direct) field of an element of s's object is unchanged
			elem := st.Elem()
			key := fc.eng.typeKey(elem)
			fc.elemRef(elem, sx("s-obj", a.T), "0")
			eo := qsym("elem." + key + ".obj")
			k := fc.eng.typeIDOf(types.NewSlice(elem))*1000 + 999
			var fs []string
			for _, cell := range fc.flattenCells(elem, "") {
				if cell.path != "" {
					panic(bindError{"others_unchanged: nested struct elements not supported"})
				}
				mem := env.heap.get(cell.region, arrSort(cell.sort))
				mem0 := env.old.get(cell.region, arrSort(cell.sort))
				fc.nfresh++
				r := qsym(fmt.Sprintf("q.r%d", fc.nfresh))
				isElem := and(eq(sx("kind", r), num(int64(k))), eq(sx(eo, r), sx("s-obj", a.T)))
				isElem = or(isElem, fc.mineRef(r))
				fs = append(fs, fmt.Sprintf("(forall ((%s Int)) (! (=> (not %s) (= (select %s %s) (select %s %s))) :pattern ((select %s %s))))", r, isElem, mem, r, mem0, r, mem, r))
			}
			return boolVal(and(fs...))
		}
		region := "E." + fc.eng.elemKey(st.Elem())
		es := sortOf(st.Elem())
		mem := env.heap.get(region, arr2Sort(es))
		mem0 := env.old.get(region, arr2Sort(es))
		fc.nfresh++
		o := qsym(fmt.Sprintf("q.o%d", fc.nfresh))
		return boolVal(fmt.Sprintf("(forall ((%s Int)) (! (=> (not %s) (= (select %s %s) (select %s %s))) :pattern ((select %s %s))))", o, or(eq(o, sx("s-obj", a.T)), fc.mineRef(o)), mem, o, mem0, o, mem, o))
	case "mem_unchanged_except":
		// all byte objects are as in the old state, except bytes [lo,hi) of slice b
		a := args()
		fc.nfresh++
		o := qsym(fmt.Sprintf("q.o%d", fc.nfresh))
		k := qsym(fmt.Sprintf("q.k%d", fc.nfresh))
		mem := env.heap.get("E.u8", arr2Sort(sInt))
		mem0 := env.old.get("E.u8", arr2Sort(sInt))
		lo := add(sx("s-off", a[0].T), a[1].T)
		hi := add(sx("s-off", a[0].T), a[2].T)
		return boolVal(fmt.Sprintf("(forall ((%s Int) (%s Int)) (! (=> (not (and (= %s (s-obj %s)) (<= %s %s) (< %s %s))) (= (select (select %s %s) %s) (select (select %s %s) %s))) :pattern ((select (select %s %s) %s))))",
			o, k, o, a[0].T, lo, k, k, hi, mem, o, k, mem0, o, k, mem, o, k))
	case "a32":
		// a32(s, i): little-endian 32-bit value at index i of a byte array value
		a := args()
		var parts []string
		for k := 0; k < 4; k++ {
			b := sel(a[0].T, add(a[1].T, num(int64(k))))
			if k == 0 {
				parts = append(parts, b)
			} else {
				parts = append(parts, sx("*", bignum(pow2(uint(8*k))), b))
			}
		}
		return mathInt(sx("+", parts...))
	case "elemsof":
		// elemsof(s): the array of elements of the object underlying slice s (string ids / ints / bytes)
		a := args()[0]
		if a.Typ == nil {
			panic(bindError{"elemsof: untyped slice"})
		}
		st, ok := a.Typ.Underlying().(*types.Slice)
		if !ok || sortOf(st.Elem()) != sInt {
			panic(bindError{"elemsof: slice of integer-like elements expected"})
		}
		mem := env.heap.get("E."+fc.eng.elemKey(st.Elem()), arr2Sort(sInt))
		return Val{T: sel(mem, sx("s-obj", a.T)), Sort: arrSort(sInt)}
	case "cat":
		a := args()
		return Val{T: sx("strcat", a[0].T, a[1].T), Sort: sInt, IsStr: true}
	case "slenid":
		return mathInt(sx("slen", args()[0].T))
	case "fieldn":
		// fieldn(x, i): the i-th field of a struct value (for values of foreign types whose fields have no
		// accessible name, e.g. time.Time)
		a := fc.evalExpr(e.Args[0], env)
		var err error
		i := -1
		if e.Args[1].Op == "num" && e.Args[1].Num != nil && e.Args[1].Num.IsInt64() {
			i = int(e.Args[1].Num.Int64())
		}
		if err != nil || i < 0 || i >= len(a.Fields) {
			panic(bindError{fmt.Sprintf("fieldn: no field %d in a value with %d fields", i, len(a.Fields))})
		}
		return a.Fields[i]
	case "deref":
		a := args()[0]
		if a.Typ == nil {
			panic(bindError{"deref: untyped pointer"})
		}
		return fc.loadVal(env.heap, a, derefType(a.Typ))
	case "ite":
		c := fc.evalBool(e.Args[0], env)
		a := fc.evalExpr(e.Args[1], env)
		b := fc.evalExpr(e.Args[2], env)
		r := a
		r.T = ite(c, a.T, b.T)
		return r
	case "min":
		a := args()
		return mathInt(ite(sx("<=", a[0].T, a[1].T), a[0].T, a[1].T))
	case "max":
		a := args()
		return mathInt(ite(sx(">=", a[0].T, a[1].T), a[0].T, a[1].T))
	case "wrap64s":
		return mathInt(intKind{64, true}.wrap(args()[0].T))
	case "wrap8", "wrap16", "wrap32", "wrap64":
		bits := map[string]uint{"wrap8": 8, "wrap16": 16, "wrap32": 32, "wrap64": 64}[e.Name]
		return mathInt(intKind{bits, false}.wrap(args()[0].T))
	case "handed":
		// handed(p): the object p points to was sent on a channel by this function (it belongs to the receiver now)
		h, ok := env.ghost["handedobj"]
		if !ok {
			panic(bindError{"handed() needs opt lockcheck"})
		}
		return boolVal(sel(h, args()[0].T))
	case "held":
		return boolVal(sel(env.ghost["held"], fc.mutexOf(args()[0])))
	case "heldonly":
		// exactly the mutex of the argument is held
		return boolVal(eq(env.ghost["held"], store("((as const (Array Int Bool)) false)", fc.mutexOf(args()[0]), "true")))
	case "nolocks":
		return boolVal(eq(env.ghost["held"], "((as const (Array Int Bool)) false)"))
	case "inmap":
		a := args()
		mt, ok := a[0].Typ.Underlying().(*types.Map)
		if !ok {
			panic(bindError{"inmap: not a map"})
		}
		dom := env.heap.get(fc.eng.mapRegion(mt, "dom"), arr2Sort(sBool))
		return boolVal(and(not(eq(a[0].T, "0")), sel2(dom, a[0].T, a[1].T)))
	case "isnil":
		return boolVal(nilTest(args()[0]))
	case "dyntype":
		// dyntype(x, "*Error"): the dynamic type of interface x is the named one
		a := fc.evalExpr(e.Args[0], env)
		tn := e.Args[1].Str
		t := fc.eng.lookupType(tn)
		if t == nil {
			panic(bindError{"dyntype: unknown type " + tn})
		}
		return boolVal(eq(sx("i-tag", a.T), num(int64(fc.eng.typeIDOf(t)))))
	case "ival":
		// payload of an interface value as a typed pointer: ival(x, "*Error")
		a := fc.evalExpr(e.Args[0], env)
		t := fc.eng.lookupType(e.Args[1].Str)
		if t == nil {
			panic(bindError{"ival: unknown type " + e.Args[1].Str})
		}
		v := Val{T: sx("i-val", a.T), Sort: sInt, Typ: t}
		if b, ok := t.Underlying().(*types.Basic); ok && b.Info()&types.IsString != 0 {
			v.IsStr = true
		}
		return v
	case "implements":
		a := fc.evalExpr(e.Args[0], env)
		t := fc.eng.lookupType(e.Args[1].Str)
		if t == nil {
			panic(bindError{"implements: unknown type " + e.Args[1].Str})
		}
		return boolVal(and(not(eq(sx("i-tag", a.T), "0")), sx("implements", sx("i-tag", a.T), num(int64(fc.eng.typeIDOf(t))))))
	case "fresh":
		// fresh(p): p was allocated during the call. In the callee's own proof: by one of its allocation sites.
		// At a call site (caller's view): a new allocation identified with the call instruction.
		a := args()[0]
		ref := a.T
		if a.Sort == sSlice {
			ref = sx("s-obj", a.T)
		}
		if env.callSite != nil {
			id, ok := fc.allocIDs[env.callSite]
			if !ok {
				return boolVal(not(eq(ref, "0")))
			}
			return boolVal(and(not(eq(ref, "0")), eq(sx("allocid", ref), num(int64(id))), eq(sx("kind", ref), "0")))
		}
		var fs []string
		for _, id := range fc.allocIDs {
			fs = append(fs, eq(sx("allocid", ref), num(int64(id))))
		}
		sort.Strings(fs)
		return boolVal(and(not(eq(ref, "0")), or(fs...)))
	}
	if m, ok := fc.eng.cs.Macros[e.Name]; ok {
		if len(m.Params) != len(e.Args) {
			panic(bindError{fmt.Sprintf("macro %s expects %d arguments", e.Name, len(m.Params))})
		}
		inner := *env
		inner.vars = map[string]Val{}
		for k, v := range env.vars {
			inner.vars[k] = v
		}
		for i, p := range m.Params {
			inner.vars[p] = fc.evalExpr(e.Args[i], env)
		}
		return fc.evalExpr(m.Body, &inner)
	}
	if r, ok := fc.eng.cs.Recs[e.Name]; ok {
		fc.declareRec(r)
		var ts []string
		for _, a := range args() {
			ts = append(ts, a.T)
		}
		sort := smtSortName(r.Ret)
		return Val{T: sx(qsym("spec."+r.Name), ts...), Sort: sort, Math: sort == sInt}
	}
	panic(bindError{fmt.Sprintf("%s: unknown spec function %s", fc.name, e.Name)})
}

func smtSortName(s string) string {
	switch strings.ToLower(s) {
	case "arr":
		return arrSort(sInt)
	case "int":
		return sInt
	case "bool":
		return sBool
	case "slice":
		return sSlice
	case "iface":
		return sIface
	}
	return s
}

// declareRec declares an uninterpreted spec function and asserts its axioms (once per function VC).
func (fc *FnCtx) declareRec(r *RecFunc) {
	name := qsym("spec." + r.Name)
	if fc.declared[name] {
		return
	}
	var ps []string
	for _, s := range r.PSorts {
		ps = append(ps, smtSortName(s))
	}
	fc.declareFun(name, ps, smtSortName(r.Ret))
	env := &Env{fc: fc, heap: fc.entryHeap, old: fc.entryHeap, ghost: fc.ghost0, oldGhost: fc.ghost0, vars: map[string]Val{}, oldvars: map[string]Val{}}
	for _, ax := range r.Axioms {
		fc.assume(fc.evalBool(ax.E, env))
	}
	fc.trusted["axioms of spec function "+r.Name+" (definitional)"] = true
}

func (e *Engine) lookupType(name string) types.Type {
	ptr := 0
	for strings.HasPrefix(name, "*") {
		ptr++
		name = name[1:]
	}
	var t types.Type
	if i := strings.LastIndex(name, "."); i >= 0 {
		pk, tn := name[:i], name[i+1:]
		for _, imp := range e.tpkg.Imports() {
			if imp.Name() == pk || imp.Path() == pk {
				if o := imp.Scope().Lookup(tn); o != nil {
					t = o.Type()
				}
			}
		}
	} else if o := e.tpkg.Scope().Lookup(name); o != nil {
		t = o.Type()
	} else if o := types.Universe.Lookup(name); o != nil {
		t = o.Type()
	}
	if t == nil {
		return nil
	}
	for i := 0; i < ptr; i++ {
		t = types.NewPointer(t)
	}
	return t
}

// ---------------------------------------------------------------------------
// Static typing of assigns expressions (used for loop modification sets)

func (e *Engine) assignRegions(a *Expr, tenv map[string]types.Type) (regions []string, all bool) {
	switch a.Op {
	case "ident":
		if a.Name == "everything" {
			return nil, true
		}
		if a.Name == "fresh" {
			return nil, false
		}
		if t, ok := tenv[a.Name]; ok {
			return e.regionsOfType(derefType(t)), false
		}
		return nil, true
	case "call":
		switch a.Name {
		case "all":
			t := e.staticType(a.Args[0], tenv)
			if t == nil {
				return nil, true
			}
			return e.regionsOfType(derefType(t)), false
		case "elems", "caps":
			t := e.staticType(a.Args[0], tenv)
			if t == nil {
				return nil, true
			}
			return e.regionsOfType(t), false
		case "mapof":
			t := e.staticType(a.Args[0], tenv)
			if t == nil {
				return nil, true
			}
			if mt, ok := t.Underlying().(*types.Map); ok {
				return []string{e.mapRegion(mt, "dom"), e.mapRegion(mt, "val")}, false
			}
			return nil, true
		case "ghost":
			var rs []string
			for _, g := range a.Args {
				rs = append(rs, "ghost."+g.Name)
			}
			return rs, false
		}
	case "sel":
		bt := e.staticType(a.Args[0], tenv)
		if bt == nil {
			return nil, true
		}
		path, ft := e.fieldPath(bt, a.Name)
		if path == nil {
			return nil, true
		}
		if sortOf(ft) != "" {
			owner := derefType(bt)
			for _, f := range path[:len(path)-1] {
				owner = derefType(f.Type())
			}
			return []string{e.fieldRegion(owner, path[len(path)-1])}, false
		}
		return e.regionsOfType(ft), false
	case "slice", "index":
		t := e.staticType(a.Args[0], tenv)
		if t == nil {
			return nil, true
		}
		return e.regionsOfType(t), false
	}
	return nil, true
}

func (e *Engine) staticType(x *Expr, tenv map[string]types.Type) types.Type {
	switch x.Op {
	case "ident":
		if t, ok := tenv[x.Name]; ok {
			return t
		}
		if o := e.tpkg.Scope().Lookup(x.Name); o != nil {
			return o.Type()
		}
	case "sel":
		bt := e.staticType(x.Args[0], tenv)
		if bt == nil {
			return nil
		}
		_, ft := e.fieldPath(bt, x.Name)
		return ft
	case "index":
		bt := e.staticType(x.Args[0], tenv)
		if bt == nil {
			return nil
		}
		if s, ok := bt.Underlying().(*types.Slice); ok {
			return s.Elem()
		}
	case "slice":
		return e.staticType(x.Args[0], tenv)
	case "call":
		if x.Name == "old" || x.Name == "before" {
			return e.staticType(x.Args[0], tenv)
		}
	}
	return nil
}

// ---------------------------------------------------------------------------
// Anchored clauses (`at call(...)`, `at send(...)`, ...)

func anchorMatches(a Anchor, kind, pattern string) bool {
	if a.Kind != kind {
		return false
	}
	if a.Pattern == pattern || a.Pattern == "*" {
		return true
	}
	if kind == "call" || kind == "go" {
		// allow unqualified method name match: "SrvReqOps.Write" vs "SrvReqOps.Write"; "(*SrvReq).Respond" vs "Respond"
		return strings.HasSuffix(pattern, "."+a.Pattern) || strings.HasSuffix(pattern, ")."+a.Pattern)
	}
	return strings.Contains(pattern, a.Pattern)
}

func (fc *FnCtx) hookAnchor(kind, pattern string, instr ssa.Instruction, args []Val, c *ssa.CallCommon) {
	fc.runAts(kind, pattern, instr, args, Val{}, false)
}

func (fc *FnCtx) hookAnchorAfter(kind, pattern string, instr ssa.Instruction, args []Val, res Val, c *ssa.CallCommon) {
	fc.runAts(kind, pattern, instr, args, res, true)
}

func (fc *FnCtx) runAts(kind, pattern string, instr ssa.Instruction, args []Val, res Val, after bool) {
	if len(fc.con.Ats) == 0 {
		return
	}
	var env *Env
	for i, at := range fc.con.Ats {
		if !anchorMatches(at.Anchor, kind, pattern) {
			continue
		}
		if (at.Kind == "after" || at.Kind == "ensures") != after {
			continue
		}
		key := fmt.Sprintf("at%d", i)
		fc.ordinals["match:"+key]++
		if at.Anchor.Ordinal != 0 {
			// ordinals count matching sites in source order (not in the order blocks are processed)
			ord := fc.ordinals["match:"+key]
			if instr != nil {
				ord = fc.sourceOrdinal(at.Anchor, kind, instr)
			}
			if ord != at.Anchor.Ordinal {
				continue
			}
		}
		fc.ordinals["matched:"+key]++
		if env == nil {
			idx := 0
			pos := token.NoPos
			if instr != nil {
				for k, in := range fc.cur.Instrs {
					if in == instr {
						idx = k
					}
				}
				pos = instr.Pos()
			}
			env = fc.envAtInstr(fc.cur, idx, pos)
			for k, a := range args {
				env.vars[fmt.Sprintf("arg%d", k)] = a
			}
			if after {
				env.before = fc.preCallHeap
				env.beforeGhost = fc.preCallGhost
				env.vars["ret"] = res
				for k, f := range res.Fields {
					env.vars[fmt.Sprintf("ret%d", k)] = f
				}
			}
		}
		env.heap = fc.heap
		env.ghost = fc.ghost
		switch at.Kind {
		case "requires":
			lbl := at.Cl.Label
			if lbl == "" {
				lbl = fmt.Sprintf("%d", i+1)
			}
			pos := token.NoPos
			if instr != nil {
				pos = instr.Pos()
			}
			detail := fmt.Sprintf("%s(%s).%s", at.Anchor.Kind, at.Anchor.Pattern, lbl)
			// a `requires` clause that does not bind at this site (it names a local that is not defined here, e.g. at a
			// new early exit) is skipped at this site only: no obligation, nothing assumed; the other clauses still apply
			goal, ok := func() (g string, ok bool) {
				defer func() {
					if r := recover(); r != nil {
						if be, isBind := r.(bindError); isBind {
							fc.skippedAts = append(fc.skippedAts, fmt.Sprintf("%s: at %s: %s (clause skipped at this site)", fc.name, detail, be.msg))
							return
						}
						panic(r)
					}
				}()
				return fc.evalBool(at.Cl.E, env), true
			}()
			if !ok {
				fc.ordinals["at:"+detail]++
				continue
			}
			fc.oblige("at", detail, goal, at.Cl.Props,
				fmt.Sprintf("at %s(%s): %s", at.Anchor.Kind, at.Anchor.Pattern, at.Cl.Text), pos)
		case "assume", "ensures":
			fc.assumeHere(fc.evalBool(at.Cl.E, env))
			fc.trusted[fmt.Sprintf("assume at %s(%s) in %s: %s", at.Anchor.Kind, at.Anchor.Pattern, fc.name, at.Cl.Text)] = true
		case "ghost", "after":
			if _, ok := fc.ghostSort[at.Ghost]; !ok {
				panic(bindError{fmt.Sprintf("%s: ghost variable %s not declared", fc.name, at.Ghost)})
			}
			v := fc.evalExpr(at.Cl.E, env)
			fc.ghost = cloneMap(fc.ghost)
			fc.ghost[at.Ghost] = v.T
		}
	}
}

// unmatchedAts lists anchored clauses that matched no instruction.
func (fc *FnCtx) unmatchedAts() []string {
	var out []string
	for i, at := range fc.con.Ats {
		if fc.ordinals[fmt.Sprintf("matched:at%d", i)] == 0 {
			out = append(out, fmt.Sprintf("%s: at %s(%s)#%d matched no instruction", fc.name, at.Anchor.Kind, at.Anchor.Pattern, at.Anchor.Ordinal))
		}
	}
	return out
}

// findDirectIndex finds the first sub-expression X[k] where k is the bound variable `name` and X mentions no bound variable.
func findDirectIndex(e *Expr, name string, vars []QVar) *Expr {
	if e == nil {
		return nil
	}
	mentions := func(x *Expr) bool { return false }
	var m func(x *Expr) bool
	m = func(x *Expr) bool {
		if x == nil {
			return false
		}
		if x.Op == "ident" {
			for _, v := range vars {
				if v.Name == x.Name {
					return true
				}
			}
		}
		for _, a := range x.Args {
			if m(a) {
				return true
			}
		}
		return false
	}
	mentions = m
	if e.Op == "forall" || e.Op == "exists" {
		for _, v := range e.Vars {
			if v.Name == name {
				return nil // shadowed
			}
		}
	}
	if e.Op == "index" && e.Args[1].Op == "ident" && e.Args[1].Name == name && !mentions(e.Args[0]) {
		return e.Args[0]
	}
	for _, a := range e.Args {
		if r := findDirectIndex(a, name, vars); r != nil {
			return r
		}
	}
	return nil
}

// mineRef: the reference belongs to an object allocated by the function under verification.
func (fc *FnCtx) mineRef(ref string) string {
	var fs []string
	for _, id := range fc.allocIDs {
		fs = append(fs, eq(sx("allocid", ref), num(int64(id))))
	}
	sort.Strings(fs)
	return or(fs...)
}

var boundVarRe = regexp.MustCompile(`(^|[ (|])(q|l)\.`)

// assumeWF: values read from memory by a contract expression are well-formed values of their type
// (slice headers consistent, integers in range). Ground terms only.
func (fc *FnCtx) assumeWF(v Val, t types.Type) {
	if v.Sort == "" || boundVarRe.MatchString(v.T) {
		return
	}
	f := fc.typeFacts(v, t)
	if f == "true" {
		return
	}
	if fc.wfSeen == nil {
		fc.wfSeen = map[string]bool{}
	}
	if fc.wfSeen[f] {
		return
	}
	fc.wfSeen[f] = true
	fc.assume(f)
}

// assumeBorn: a reference read from memory by a contract expression existed when that memory state was current
// (no heap holds a reference to an object that is allocated later).
func (fc *FnCtx) assumeBorn(v Val, t types.Type, env *Env) {
	now, ok := env.ghost["now"]
	if !ok || v.Sort == "" || boundVarRe.MatchString(v.T) || boundVarRe.MatchString(now) {
		return
	}
	var ref string
	switch t.Underlying().(type) {
	case *types.Pointer, *types.Map, *types.Chan:
		if v.Sort != sInt {
			return
		}
		ref = v.T
	case *types.Slice:
		ref = sx("s-obj", v.T)
	case *types.Interface:
		ref = sx("i-val", v.T)
	default:
		return
	}
	f := sx("<=", sx("born", ref), now)
	if fc.wfSeen == nil {
		fc.wfSeen = map[string]bool{}
	}
	if fc.wfSeen[f] {
		return
	}
	fc.wfSeen[f] = true
	fc.assume(f)
}

// sourceOrdinal: 1-based position of instr among the instructions of the function that match the anchor,
// ordered by source position.
func (fc *FnCtx) sourceOrdinal(a Anchor, kind string, instr ssa.Instruction) int {
	var sites []ssa.Instruction
	for _, b := range fc.fn.Blocks {
		for _, in := range b.Instrs {
			var pat string
			switch x := in.(type) {
			case *ssa.Call:
				if kind != "call" {
					continue
				}
				pat = fc.calleeName(x.Common())
			case *ssa.Go:
				if kind != "go" {
					continue
				}
				pat = fc.calleeName(x.Common())
			case *ssa.Send:
				if kind != "send" {
					continue
				}
				pat = fc.srcText(x.Pos())
			case *ssa.Select:
				if kind != "select" {
					continue
				}
				pat = fc.srcText(x.Pos())
			case *ssa.MakeSlice:
				if kind != "make" {
					continue
				}
				pat = fc.srcText(x.Pos())
			case *ssa.MakeChan:
				if kind != "make" {
					continue
				}
				pat = fc.srcText(x.Pos())
			case *ssa.Next:
				if kind != "next" {
					continue
				}
				pat = fc.nextText(x)
			case *ssa.UnOp:
				if kind != "recv" || x.Op != token.ARROW {
					continue
				}
				pat = fc.srcText(x.Pos())
			default:
				continue
			}
			if anchorMatches(a, kind, pat) {
				sites = append(sites, in)
			}
		}
	}
	sort.SliceStable(sites, func(i, j int) bool { return sites[i].Pos() < sites[j].Pos() })
	for i, s := range sites {
		if s == instr {
			return i + 1
		}
	}
	return 0
}
