package main

import (
	"fmt"
	"go/ast"
	"go/token"
	"go/types"
	"os"
	"path/filepath"
	"sort"
	"strings"

	"golang.org/x/tools/go/packages"
	"golang.org/x/tools/go/ssa"
	"golang.org/x/tools/go/ssa/ssautil"
)

type Engine struct {
	repo   string
	prog   *ssa.Program
	pkg    *ssa.Package
	tpkg   *types.Package
	info   *types.Info
	fset   *token.FileSet
	cs     *Contracts
	funcs  map[string]*ssa.Function
	src    map[string][]byte
	typeID map[string]int
	files  []*ast.File

	immutableGlobals map[*ssa.Global]bool
	globalInit       map[*ssa.Global]ast.Expr
	loadSecs         float64
	immRegions       map[string]bool
	reachW           map[*ssa.Function]map[string]bool
}

func childEnv() []string {
	var env []string
	for _, e := range os.Environ() {
		if strings.HasPrefix(e, "GOSUMDB=") || strings.HasPrefix(e, "GOTOOLCHAIN=") || strings.HasPrefix(e, "GOFLAGS=") {
			continue
		}
		env = append(env, e)
	}
	env = append(env, "GOFLAGS=-mod=mod", "GOPROXY=off")
	return env
}

func LoadEngine(repo string, contractFiles []string) (*Engine, error) {
	cfg := &packages.Config{Mode: packages.LoadSyntax, Dir: repo, BuildFlags: []string{"-tags=verif"}, Env: childEnv()}
	pkgs, err := packages.Load(cfg, ".")
	if err != nil {
		return nil, err
	}
	if len(pkgs) != 1 {
		return nil, fmt.Errorf("expected one package, got %d", len(pkgs))
	}
	if len(pkgs[0].Errors) > 0 {
		return nil, fmt.Errorf("package errors: %v", pkgs[0].Errors)
	}
	prog, spkgs := ssautil.Packages(pkgs, ssa.GlobalDebug)
	prog.Build()
	e := &Engine{repo: repo, prog: prog, pkg: spkgs[0], tpkg: pkgs[0].Types, info: pkgs[0].TypesInfo, fset: pkgs[0].Fset,
		funcs: map[string]*ssa.Function{}, src: map[string][]byte{}, typeID: map[string]int{}, files: pkgs[0].Syntax,
		immutableGlobals: map[*ssa.Global]bool{}, globalInit: map[*ssa.Global]ast.Expr{}}
	if len(contractFiles) == 0 {
		m, _ := filepath.Glob(filepath.Join(repo, "verif_contracts*.go"))
		sort.Strings(m)
		contractFiles = m
	}
	cs, err := ParseContracts(contractFiles...)
	if err != nil {
		return nil, err
	}
	e.cs = cs
	// index functions of the package (and methods)
	for fn := range ssautil.AllFunctions(prog) {
		if fn.Pkg != e.pkg || fn.Synthetic != "" && fn.Name() != "init" {
			continue
		}
		if fn.Parent() != nil {
			continue
		}
		e.funcs[fn.RelString(e.tpkg)] = fn
	}
	e.findImmutableGlobals()
	return e, nil
}

func (e *Engine) nodeText(n ast.Node) string {
	p1 := e.fset.Position(n.Pos())
	p2 := e.fset.Position(n.End())
	b, ok := e.src[p1.Filename]
	if !ok {
		b, _ = os.ReadFile(p1.Filename)
		e.src[p1.Filename] = b
	}
	if p1.Offset < 0 || p2.Offset > len(b) || p1.Offset > p2.Offset {
		return ""
	}
	return string(b[p1.Offset:p2.Offset])
}

func (e *Engine) typeIDOf(t types.Type) int {
	k := types.TypeString(t, nil)
	if id, ok := e.typeID[k]; ok {
		return id
	}
	id := len(e.typeID) + 1
	e.typeID[k] = id
	return id
}

// findImmutableGlobals: package-level variables that are never stored to outside init.
func (e *Engine) findImmutableGlobals() {
	stored := map[*ssa.Global]bool{}
	addrTaken := map[*ssa.Global]bool{}
	for fn := range ssautil.AllFunctions(e.prog) {
		if fn.Pkg != e.pkg {
			continue
		}
		isInit := fn.Name() == "init" && fn.Synthetic != ""
		for _, b := range fn.Blocks {
			for _, in := range b.Instrs {
				for _, op := range in.Operands(nil) {
					g, ok := (*op).(*ssa.Global)
					if !ok {
						continue
					}
					switch x := in.(type) {
					case *ssa.Store:
						if x.Addr == g {
							if !isInit {
								stored[g] = true
							}
						} else {
							addrTaken[g] = true
						}
					case *ssa.UnOp:
						// load: fine
					case *ssa.IndexAddr, *ssa.FieldAddr:
						// element address: check uses for stores
						v := in.(ssa.Value)
						for _, r := range *v.Referrers() {
							if st, ok := r.(*ssa.Store); ok && st.Addr == v && !isInit {
								stored[g] = true
							} else if _, ok := r.(*ssa.UnOp); ok {
							} else if _, ok := r.(*ssa.DebugRef); ok {
							} else if !isInit {
								addrTaken[g] = true
							}
						}
					case *ssa.DebugRef:
					default:
						addrTaken[g] = true
					}
				}
			}
		}
	}
	for _, m := range e.pkg.Members {
		if g, ok := m.(*ssa.Global); ok {
			if !stored[g] && !addrTaken[g] {
				e.immutableGlobals[g] = true
			}
		}
	}
	// initialiser expressions
	for _, f := range e.files {
		for _, d := range f.Decls {
			gd, ok := d.(*ast.GenDecl)
			if !ok || gd.Tok != token.VAR {
				continue
			}
			for _, sp := range gd.Specs {
				vs := sp.(*ast.ValueSpec)
				if len(vs.Values) != len(vs.Names) {
					continue
				}
				for i, n := range vs.Names {
					if m, ok := e.pkg.Members[n.Name]; ok {
						if g, ok := m.(*ssa.Global); ok {
							e.globalInit[g] = vs.Values[i]
						}
					}
				}
			}
		}
	}
}

// propsOf returns the property ids attached to a function contract.
func (e *Engine) funcsForProp(prop string) []string {
	var out []string
	for _, name := range e.cs.Order {
		c := e.cs.Funcs[name]
		if c.Extern || c.Iface {
			continue
		}
		if prop == "" || contains(c.Props, prop) || clauseHasProp(c, prop) {
			out = append(out, name)
		}
	}
	return out
}

func clauseHasProp(c *FuncContract, prop string) bool {
	for _, cl := range c.Requires {
		if contains(cl.Props, prop) {
			return true
		}
	}
	for _, cl := range c.Ensures {
		if contains(cl.Props, prop) {
			return true
		}
	}
	for _, a := range c.Ats {
		if contains(a.Cl.Props, prop) {
			return true
		}
	}
	return false
}

func contains(xs []string, s string) bool {
	for _, x := range xs {
		if x == s {
			return true
		}
	}
	return false
}

// immutableFieldRegion: fields declared `immutable T.f by <writers>` keep their value across calls into
// unknown code; checkImmutableFields verifies mechanically that only the named writers store to them.
func (e *Engine) immutableFieldRegion(r string) bool {
	if e.immRegions == nil {
		e.immRegions = map[string]bool{}
		for _, fcl := range e.cs.Fields {
			if fcl.Class == "immutable" {
				e.immRegions["F."+fcl.Type+"."+fcl.Field] = true
			}
		}
	}
	return e.immRegions[r]
}

// writersReachable: the immutable field regions whose declared writers can be reached from fn through static
// calls inside the package (including fn itself). At a call to such a function those fields are not frozen.
func (e *Engine) writersReachable(fn *ssa.Function) map[string]bool {
	if fn == nil {
		return nil
	}
	if e.reachW == nil {
		e.reachW = map[*ssa.Function]map[string]bool{}
	}
	if r, ok := e.reachW[fn]; ok {
		return r
	}
	writerOf := map[string][]string{} // function name -> regions
	for _, fcl := range e.cs.Fields {
		if fcl.Class != "immutable" {
			continue
		}
		for _, w := range strings.Fields(strings.ReplaceAll(fcl.By, ",", " ")) {
			writerOf[w] = append(writerOf[w], "F."+fcl.Type+"."+fcl.Field)
		}
	}
	out := map[string]bool{}
	seen := map[*ssa.Function]bool{}
	var walk func(f *ssa.Function)
	walk = func(f *ssa.Function) {
		if f == nil || seen[f] {
			return
		}
		seen[f] = true
		for _, r := range writerOf[f.RelString(e.tpkg)] {
			out[r] = true
		}
		for _, b := range f.Blocks {
			for _, in := range b.Instrs {
				if ci, ok := in.(ssa.CallInstruction); ok {
					if callee := ci.Common().StaticCallee(); callee != nil && callee.Pkg == fn.Pkg {
						walk(callee)
					}
				}
			}
		}
	}
	walk(fn)
	e.reachW[fn] = out
	return out
}

// checkImmutableFields returns the stores to immutable fields made outside their declared writers.
func (e *Engine) checkImmutableFields() []string {
	var bad []string
	allowed := map[string]map[string]bool{}
	for _, fcl := range e.cs.Fields {
		if fcl.Class != "immutable" {
			continue
		}
		k := fcl.Type + "." + fcl.Field
		allowed[k] = map[string]bool{}
		for _, w := range strings.Fields(strings.ReplaceAll(fcl.By, ",", " ")) {
			allowed[k][w] = true
		}
	}
	for fn := range ssautil.AllFunctions(e.prog) {
		if fn.Pkg != e.pkg {
			continue
		}
		if pos := fn.Pos(); pos.IsValid() && strings.HasSuffix(e.fset.Position(pos).Filename, "_test.go") {
			continue
		}
		name := fn.RelString(e.tpkg)
		for _, b := range fn.Blocks {
			for _, in := range b.Instrs {
				st, ok := in.(*ssa.Store)
				if !ok {
					continue
				}
				fa, ok := st.Addr.(*ssa.FieldAddr)
				if !ok {
					continue
				}
				stt := derefType(fa.X.Type())
				s, ok := structOf(stt)
				if !ok {
					continue
				}
				k := e.typeKey(stt) + "." + s.Field(fa.Field).Name()
				if w, isImm := allowed[k]; isImm && !w[name] {
					// stores into an object allocated in the same function (not yet published) are construction
					if a, isAlloc := fa.X.(*ssa.Alloc); isAlloc && a.Heap {
						continue
					}
					bad = append(bad, fmt.Sprintf("%s stores to immutable field %s at %s", name, k, e.fset.Position(st.Pos())))
				}
			}
		}
	}
	sort.Strings(bad)
	return bad
}

// globalOrdinal: a distinct positive number per package-level variable.
func (e *Engine) globalOrdinal(g *ssa.Global) int {
	var names []string
	for n, m := range e.pkg.Members {
		if _, ok := m.(*ssa.Global); ok {
			names = append(names, n)
		}
	}
	sort.Strings(names)
	for i, n := range names {
		if n == g.Name() {
			return i + 1
		}
	}
	return 0
}
