package main

import (
	"bytes"
	"context"
	"fmt"
	"os"
	"os/exec"
	"path/filepath"
	"strings"
	"sync"
	"time"
)

type SolverCfg struct {
	Timeout  time.Duration
	Workers  int
	Seed     int
	WorkDir  string
	KeepSMT  bool
	AllAgree bool // thorough: run every solver and require agreement
	NoSolve  bool // generate only
}

func (o *Obligation) SMT(seed int) string {
	var b strings.Builder
	b.WriteString("(set-option :produce-models true)\n")
	b.WriteString("(set-logic ALL)\n")
	b.WriteString(prelude)
	fc := o.fc
	for _, d := range fc.decls {
		b.WriteString(d)
		b.WriteByte('\n')
	}
	n := o.NAssume
	if n > len(fc.assumes) {
		n = len(fc.assumes)
	}
	for _, a := range fc.assumes[:n] {
		b.WriteString("(assert ")
		b.WriteString(a)
		b.WriteString(")\n")
	}
	for _, a := range o.Extra {
		b.WriteString("(assert ")
		b.WriteString(a)
		b.WriteString(")\n")
	}
	b.WriteString("(assert (not ")
	b.WriteString(o.Goal)
	b.WriteString("))\n(check-sat)\n")
	return b.String()
}

type solverDef struct {
	name string
	argv func(file string, timeout time.Duration, seed int) []string
}

var solvers = []solverDef{
	{"z3-new", func(f string, t time.Duration, seed int) []string {
		return []string{"z3-new", fmt.Sprintf("-T:%d", int(t.Seconds())+1), fmt.Sprintf("smt.random_seed=%d", seed), f}
	}},
	{"z3", func(f string, t time.Duration, seed int) []string {
		return []string{"z3", fmt.Sprintf("-T:%d", int(t.Seconds())+1), fmt.Sprintf("smt.random_seed=%d", seed), f}
	}},
	{"cvc5", func(f string, t time.Duration, seed int) []string {
		return []string{"cvc5", fmt.Sprintf("--tlimit=%d", t.Milliseconds()), fmt.Sprintf("--seed=%d", seed), f}
	}},
}

func runSolver(ctx context.Context, sd solverDef, file string, timeout time.Duration, seed int) (string, string, float64) {
	argv := sd.argv(file, timeout, seed)
	cctx, cancel := context.WithTimeout(ctx, timeout+2*time.Second)
	defer cancel()
	cmd := exec.CommandContext(cctx, argv[0], argv[1:]...)
	var out bytes.Buffer
	cmd.Stdout = &out
	cmd.Stderr = &out
	t0 := time.Now()
	_ = cmd.Run()
	dt := time.Since(t0).Seconds()
	s := out.String()
	first := strings.TrimSpace(strings.SplitN(s, "\n", 2)[0])
	switch first {
	case "sat", "unsat", "unknown":
		return first, s, dt
	}
	if cctx.Err() != nil || strings.Contains(s, "timeout") {
		return "timeout", s, dt
	}
	return "error", s, dt
}

// Solve discharges the obligations in parallel.
func Solve(obls []*Obligation, cfg SolverCfg) {
	if cfg.NoSolve {
		return
	}
	if cfg.Workers <= 0 {
		cfg.Workers = 8
	}
	dir := cfg.WorkDir
	if dir == "" {
		d, err := os.MkdirTemp("", "gvc-smt-")
		if err != nil {
			panic(err)
		}
		dir = d
		defer os.RemoveAll(d)
	} else {
		os.MkdirAll(dir, 0o755)
	}
	var wg sync.WaitGroup
	ch := make(chan int)
	for w := 0; w < cfg.Workers; w++ {
		wg.Add(1)
		go func() {
			defer wg.Done()
			for i := range ch {
				solveOne(obls[i], i, dir, cfg)
			}
		}()
	}
	for i := range obls {
		ch <- i
	}
	close(ch)
	wg.Wait()
}

func solveOne(o *Obligation, idx int, dir string, cfg SolverCfg) {
	if o.fc == nil {
		return // decided mechanically, not by a solver
	}
	if o.Goal == "true" && o.Expect == "unsat" {
		o.Result, o.Solver = "unsat", "trivial"
		return
	}
	file := filepath.Join(dir, fmt.Sprintf("o%05d.smt2", idx))
	if err := os.WriteFile(file, []byte(o.SMT(cfg.Seed)), 0o644); err != nil {
		o.Result = "error"
		o.Output = err.Error()
		return
	}
	o.File = file
	if !cfg.KeepSMT {
		defer os.Remove(file)
	}
	ctx := context.Background()
	// stage 1: a short run of the first solver
	short := 3 * time.Second
	if short > cfg.Timeout {
		short = cfg.Timeout
	}
	if (o.Kind == "vacuity" || o.Kind == "cover") && !cfg.AllAgree {
		// reachability probes: a model is welcome, "unknown" is acceptable, only "unsat" is a finding
		r, out, dt := runSolver(ctx, solvers[0], file, 1500*time.Millisecond, cfg.Seed)
		o.Time += dt
		o.Result, o.Solver, o.Output = r, solvers[0].name, out
		return
	}
	if !cfg.AllAgree {
		r, out, dt := runSolver(ctx, solvers[0], file, short, cfg.Seed)
		o.Time += dt
		if r == "sat" || r == "unsat" {
			o.Result, o.Solver, o.Output = r, solvers[0].name, out
			return
		}
	}
	// stage 2: race all solvers
	type res struct {
		r, out, name string
		dt           float64
	}
	cctx, cancel := context.WithCancel(ctx)
	defer cancel()
	rc := make(chan res, len(solvers))
	for _, sd := range solvers {
		sd := sd
		go func() {
			r, out, dt := runSolver(cctx, sd, file, cfg.Timeout, cfg.Seed)
			rc <- res{r, out, sd.name, dt}
		}()
	}
	var got []res
	final := res{r: "unknown"}
	definitive := 0
	for i := 0; i < len(solvers); i++ {
		x := <-rc
		got = append(got, x)
		if x.r == "sat" || x.r == "unsat" {
			definitive++
			if final.r != "sat" && final.r != "unsat" {
				final = x
			} else if final.r != x.r {
				o.Result = "disagree"
				o.Output = fmt.Sprintf("%s says %s, %s says %s", final.name, final.r, x.name, x.r)
				return
			}
			// quick: the first answer decides; thorough: two independent solvers must give the same answer
			if !cfg.AllAgree || definitive >= 2 {
				if definitive >= 2 {
					final.name += "+" + x.name
				}
				cancel()
				break
			}
		}
	}
	if final.r != "sat" && final.r != "unsat" {
		// keep the most informative non-answer
		final = got[0]
		for _, g := range got {
			if g.r == "unknown" {
				final = g
			}
		}
		if final.r != "unknown" {
			final.r = "timeout"
		}
	}
	o.Time += final.dt
	o.Result, o.Solver, o.Output = final.r, final.name, final.out
}
