package go9p

import (
	"testing"
	"time"
)

type zzSuccOps struct{ processed chan *SrvReq }

func (o *zzSuccOps) SrvReqProcess(req *SrvReq) { o.processed <- req }
func (o *zzSuccOps) SrvReqRespond(req *SrvReq) {}
func (o *zzSuccOps) Attach(req *SrvReq)        {}
func (o *zzSuccOps) Walk(req *SrvReq)          {}
func (o *zzSuccOps) Open(req *SrvReq)          {}
func (o *zzSuccOps) Create(req *SrvReq)        {}
func (o *zzSuccOps) Read(req *SrvReq)          {}
func (o *zzSuccOps) Write(req *SrvReq)         {}
func (o *zzSuccOps) Clunk(req *SrvReq)         {}
func (o *zzSuccOps) Remove(req *SrvReq)        {}
func (o *zzSuccOps) Stat(req *SrvReq)          {}
func (o *zzSuccOps) Wstat(req *SrvReq)         {}

// When a request of a shared-tag group is answered while both it and its successor have flushes waiting,
// the successor (not one of the flushes) is the request that runs next.
func TestZzSuccessorWithFlushLists(t *testing.T) {
	ops := &zzSuccOps{processed: make(chan *SrvReq, 4)}
	srv := &Srv{Msize: 8192, Upool: OsUsers}
	srv.Start(ops)
	conn := &Conn{Srv: srv, Msize: 8192, fidpool: map[uint32]*SrvFid{}, reqs: map[uint16]*SrvReq{}, reqout: make(chan *SrvReq, 8)}
	mk := func(typ uint8, tag uint16) *SrvReq {
		return &SrvReq{Tc: &Fcall{Type: typ, Tag: tag}, Rc: NewFcall(8192), Conn: conn}
	}
	a, n := mk(Tread, 5), mk(Tread, 5) // a is being worked on, n is queued behind it
	f1, f2 := mk(Tflush, 6), mk(Tflush, 7)
	n.next, a.prev = a, n
	conn.reqs[5] = n
	a.flushreq, n.flushreq = f1, f2 // a Tflush waits on each of them
	a.status = reqWork
	_ = PackRread(a.Rc, []byte("x"))
	a.Respond()
	select {
	case got := <-ops.processed:
		if got != n {
			t.Errorf("the request started next has type %d tag %d, want the queued request with tag 5", got.Tc.Type, got.Tc.Tag)
		}
	case <-time.After(2 * time.Second):
		t.Error("no request was started")
	}
}
