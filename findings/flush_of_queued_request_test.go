package go9p

import (
	"io"
	"net"
	"testing"
	"time"
)

type zzFQUser struct{}

func (zzFQUser) Name() string          { return "zz" }
func (zzFQUser) Id() int               { return 0 }
func (zzFQUser) Groups() []Group       { return nil }
func (zzFQUser) IsMember(g Group) bool { return false }

type zzFQUsers struct{}

func (zzFQUsers) Uid2User(uid int) User          { return zzFQUser{} }
func (zzFQUsers) Uname2User(uname string) User   { return zzFQUser{} }
func (zzFQUsers) Gid2Group(gid int) Group        { return nil }
func (zzFQUsers) Gname2Group(gname string) Group { return nil }

type zzFQOps struct{ block chan struct{} }

func (o *zzFQOps) Attach(req *SrvReq) { req.RespondRattach(&Qid{Type: QTFILE, Path: 1}) }
func (o *zzFQOps) Walk(req *SrvReq)   { req.RespondRwalk(nil) }
func (o *zzFQOps) Open(req *SrvReq)   { req.RespondRopen(&Qid{Type: QTFILE, Path: 1}, 0) }
func (o *zzFQOps) Create(req *SrvReq) { req.RespondError(Eperm) }
func (o *zzFQOps) Read(req *SrvReq) {
	if req.Tc.Tag == 5 {
		<-o.block
	}
	req.RespondRread([]byte("data"))
}
func (o *zzFQOps) Write(req *SrvReq)  { req.RespondError(Eperm) }
func (o *zzFQOps) Clunk(req *SrvReq)  { req.RespondRclunk() }
func (o *zzFQOps) Remove(req *SrvReq) { req.RespondError(Eperm) }
func (o *zzFQOps) Stat(req *SrvReq)   { req.RespondError(Eperm) }
func (o *zzFQOps) Wstat(req *SrvReq)  { req.RespondError(Eperm) }

// Flushing a request that is queued behind another request with the same tag must not crash the server
// (before fix 200ac9e: SIGSEGV in readPost on the nil fid of the request that never ran).
func TestZzFlushOfQueuedRequest(t *testing.T) {
	ops := &zzFQOps{block: make(chan struct{})}
	srv := &Srv{Msize: 8192, Upool: zzFQUsers{}}
	if !srv.Start(ops) {
		t.Fatal("Start failed")
	}
	sc, cc := net.Pipe()
	srv.NewConn(sc)
	defer cc.Close()
	send := func(pack func(fc *Fcall) error, tag uint16) {
		fc := NewFcall(8192)
		if err := pack(fc); err != nil {
			t.Fatal(err)
		}
		SetTag(fc, tag)
		if _, err := cc.Write(fc.Pkt); err != nil {
			t.Fatal(err)
		}
	}
	recv := func() *Fcall {
		cc.SetReadDeadline(time.Now().Add(3 * time.Second))
		hdr := make([]byte, 4)
		if _, err := io.ReadFull(cc, hdr); err != nil {
			t.Fatalf("no reply: %v", err)
		}
		sz, _ := Gint32(hdr)
		buf := make([]byte, sz)
		copy(buf, hdr)
		if _, err := io.ReadFull(cc, buf[4:]); err != nil {
			t.Fatal(err)
		}
		fc, _, err := Unpack(buf, false)
		if err != nil {
			t.Fatal(err)
		}
		return fc
	}
	send(func(fc *Fcall) error { return PackTversion(fc, 8192, "9P2000") }, NOTAG)
	recv()
	send(func(fc *Fcall) error { return PackTattach(fc, 1, NOFID, "zz", "", NOUID, false) }, 1)
	recv()
	send(func(fc *Fcall) error { return PackTopen(fc, 1, OREAD) }, 1)
	recv()
	send(func(fc *Fcall) error { return PackTread(fc, 1, 0, 16) }, 5) // blocks in the implementation
	for i := 0; i < 4; i++ {                                          // put Rread buffers into circulation
		send(func(fc *Fcall) error { return PackTread(fc, 1, 0, 16) }, 6)
		if r := recv(); r.Type != Rread {
			t.Fatalf("got %d", r.Type)
		}
	}
	send(func(fc *Fcall) error { return PackTread(fc, 1, 0, 16) }, 5) // queued behind the first tag-5 request
	send(func(fc *Fcall) error { return PackTflush(fc, 5) }, 7)
	time.Sleep(300 * time.Millisecond)
	close(ops.block)
	for i := 0; i < 2; i++ {
		r := recv()
		t.Logf("reply type %d tag %d", r.Type, r.Tag)
	}
}
