package go9p

import (
	"io"
	"net"
	"sync"
	"testing"
	"time"
)

type zzGUser struct{}

func (zzGUser) Name() string          { return "zz" }
func (zzGUser) Id() int               { return 0 }
func (zzGUser) Groups() []Group       { return nil }
func (zzGUser) IsMember(g Group) bool { return false }

type zzGUsers struct{}

func (zzGUsers) Uid2User(uid int) User          { return zzGUser{} }
func (zzGUsers) Uname2User(uname string) User   { return zzGUser{} }
func (zzGUsers) Gid2Group(gid int) Group        { return nil }
func (zzGUsers) Gname2Group(gname string) Group { return nil }

type zzGOps struct {
	sync.Mutex
	entered chan uint64
	release chan struct{}
}

func (o *zzGOps) Attach(req *SrvReq) { req.RespondRattach(&Qid{Type: QTFILE, Path: 1}) }
func (o *zzGOps) Walk(req *SrvReq)   { req.RespondRwalk(nil) }
func (o *zzGOps) Open(req *SrvReq)   { req.RespondRopen(&Qid{Type: QTFILE, Path: 1}, 0) }
func (o *zzGOps) Create(req *SrvReq) { req.RespondError(Eperm) }
func (o *zzGOps) Read(req *SrvReq) {
	o.entered <- req.Tc.Offset
	<-o.release
	req.RespondRread([]byte("data"))
}
func (o *zzGOps) Write(req *SrvReq)  { req.RespondError(Eperm) }
func (o *zzGOps) Clunk(req *SrvReq)  { req.RespondRclunk() }
func (o *zzGOps) Remove(req *SrvReq) { req.RespondError(Eperm) }
func (o *zzGOps) Stat(req *SrvReq)   { req.RespondError(Eperm) }
func (o *zzGOps) Wstat(req *SrvReq)  { req.RespondError(Eperm) }

// Requests under one shared tag run one at a time, also after the newest queued one was cancelled by a Tflush.
func TestZzSharedTagAfterFlushOfQueued(t *testing.T) {
	ops := &zzGOps{entered: make(chan uint64, 8), release: make(chan struct{})}
	srv := &Srv{Msize: 8192, Upool: zzGUsers{}}
	if !srv.Start(ops) {
		t.Fatal("Start failed")
	}
	sc, cc := net.Pipe()
	srv.NewConn(sc)
	defer cc.Close()
	send := func(pack func(fc *Fcall) error, tag uint16) {
		fc := NewFcall(8192)
		if err := pack(fc); err != nil {
			t.Fatal(err)
		}
		SetTag(fc, tag)
		if _, err := cc.Write(fc.Pkt); err != nil {
			t.Fatal(err)
		}
	}
	recv := func() *Fcall {
		cc.SetReadDeadline(time.Now().Add(3 * time.Second))
		hdr := make([]byte, 4)
		if _, err := io.ReadFull(cc, hdr); err != nil {
			t.Fatalf("no reply: %v", err)
		}
		sz, _ := Gint32(hdr)
		buf := make([]byte, sz)
		copy(buf, hdr)
		if _, err := io.ReadFull(cc, buf[4:]); err != nil {
			t.Fatal(err)
		}
		fc, _, err := Unpack(buf, false)
		if err != nil {
			t.Fatal(err)
		}
		return fc
	}
	send(func(fc *Fcall) error { return PackTversion(fc, 8192, "9P2000") }, NOTAG)
	recv()
	send(func(fc *Fcall) error { return PackTattach(fc, 1, NOFID, "zz", "", NOUID, false) }, 1)
	recv()
	send(func(fc *Fcall) error { return PackTopen(fc, 1, OREAD) }, 1)
	recv()
	send(func(fc *Fcall) error { return PackTread(fc, 1, 100, 16) }, 5) // runs and blocks
	if off := <-ops.entered; off != 100 {
		t.Fatalf("entered %d", off)
	}
	send(func(fc *Fcall) error { return PackTread(fc, 1, 200, 16) }, 5) // queued behind the first
	send(func(fc *Fcall) error { return PackTflush(fc, 5) }, 7)         // cancels the queued one
	if r := recv(); r.Type != Rflush || r.Tag != 7 {
		t.Fatalf("got type %d tag %d, want Rflush tag 7", r.Type, r.Tag)
	}
	send(func(fc *Fcall) error { return PackTread(fc, 1, 300, 16) }, 5) // must wait for the first
	select {
	case off := <-ops.entered:
		t.Errorf("request at offset %d entered the implementation while the first request with the same tag is still executing", off)
	case <-time.After(500 * time.Millisecond):
	}
	close(ops.release)
}
