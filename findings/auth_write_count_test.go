package go9p

// Demonstration for the fix "a Twrite on an authentication fid is checked against msize-IOHDRSZ like any other" (C05).
// Copy into the package directory as zz_auth_write_test.go and run `go test -vet=off -run TestZzFindingAuthWriteCount .`
// A Twrite frame carries 23 bytes of header, IOHDRSZ is 24: count = msize-23 fits a frame of msize bytes and exceeds
// msize-IOHDRSZ. Before the fix such a Twrite on an auth fid reached AuthOps.AuthWrite.

import "testing"

type zzAuthWriteOps struct {
	testSrvOps
	got int
}

func (o *zzAuthWriteOps) AuthWrite(afid *SrvFid, offset uint64, data []byte) (int, error) {
	o.got = len(data)
	return len(data), nil
}

func TestZzFindingAuthWriteCount(t *testing.T) {
	for _, excess := range []uint32{1, 1000} {
		ops := &zzAuthWriteOps{got: -1}
		req := newTestReq(Twrite)
		req.Conn.Srv.ops = ops
		count := req.Conn.Msize - IOHDRSZ + excess
		req.Tc.Count = count
		req.Tc.Data = make([]byte, count)
		req.Fid = &SrvFid{Type: QTAUTH, fid: 7, refcount: 1, Fconn: req.Conn}
		req.Conn.Srv.write(req)
		if ops.got != -1 {
			t.Errorf("msize %d: a Twrite of %d bytes (limit %d) on an auth fid was forwarded to AuthWrite", req.Conn.Msize, ops.got, req.Conn.Msize-IOHDRSZ)
		}
		if req.Rc.Type != Rerror {
			t.Errorf("count %d: answered with type %d, want Rerror", count, req.Rc.Type)
		}
	}
}
