package go9p

// Demonstration for the fix "a Twstat rename of the exported root is refused" (C18).
// Copy into the package directory as zz_root_rename_test.go and run `go test -vet=off -run TestZzFindingRootRename .`
// Before the fix the Twstat below executes rename(<top>/root, <top>/escaped): an entry next to the exported
// tree is created and the tree itself disappears from under Ufs.Root.

import (
	"net"
	"os"
	"path/filepath"
	"testing"
)

func TestZzFindingRootRename(t *testing.T) {
	top := t.TempDir()
	root := filepath.Join(top, "root")
	if err := os.MkdirAll(filepath.Join(root, "d"), 0755); err != nil {
		t.Fatal(err)
	}
	ufs := new(Ufs)
	ufs.Id = "zzrootrename"
	ufs.Root = root
	ufs.Start(ufs)
	l, err := net.Listen("tcp", "127.0.0.1:0")
	if err != nil {
		t.Fatalf("listen: %v", err)
	}
	defer l.Close()
	go func() { _ = ufs.StartListener(l) }()
	c, err := Mount("tcp", l.Addr().String(), "", 8192, OsUsers.Uid2User(os.Getuid()))
	if err != nil {
		t.Fatalf("mount: %v", err)
	}
	defer c.Unmount()

	d := &Dir{Type: 0xFFFF, Dev: 0xFFFFFFFF, Mode: 0xFFFFFFFF, Atime: 0xFFFFFFFF, Mtime: 0xFFFFFFFF,
		Length: 0xFFFFFFFFFFFFFFFF, Uidnum: NOUID, Gidnum: NOUID, Muidnum: NOUID, Name: "escaped"}
	werr := c.Wstat(c.Root, d)
	if _, err := os.Lstat(filepath.Join(top, "escaped")); err == nil {
		t.Errorf("Twstat on the root fid created %s outside the exported tree (wstat error: %v)", filepath.Join(top, "escaped"), werr)
	}
	if _, err := os.Lstat(root); err != nil {
		t.Errorf("the exported root is gone: %v", err)
	}
	if werr == nil {
		t.Errorf("renaming the exported root was not refused")
	}
}
